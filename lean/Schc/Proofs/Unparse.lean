/-
The un-parsing path (`Schc.Py.Unparse`): what `decompress(…, unparser=…)` returns.

1. `strip`: field lists up to the padding side of their values (the decompressor builds RIGHT-padded values, the
   parsers LEFT-padded slices; un-parsing and the final concatenation only look at ids, lengths and bits).
2. dispatch: `PacketParser.unparse` on a field list that is made of one segment per header parser, followed by
   fields nobody claims.
3. `decompressU` for rules without compute fields = un-parse the rebuilt fields, concatenate.
-/
import Schc.Py.Unparse
import Schc.Proofs.Decompress2

namespace Schc

/-- a field list up to the padding side of the values -/
def strip (fs : Compute.Fields) : List (String × Bits) := fs.map (fun f => (f.1, f.2.bits))

@[simp] theorem strip_nil : strip [] = [] := rfl
@[simp] theorem strip_cons (f : String × ABuf) (fs : Compute.Fields) : strip (f :: fs) = (f.1, f.2.bits) :: strip fs := rfl
@[simp] theorem strip_append (a b : Compute.Fields) : strip (a ++ b) = strip a ++ strip b := by simp [strip]

theorem strip_length (a b : Compute.Fields) (h : strip a = strip b) : a.length = b.length := by
  have := congrArg List.length h
  simpa [strip] using this

/-- the concatenation of the values only depends on the stripped list -/
theorem fold_strip (fs : Compute.Fields) :
    (fs.foldl (fun acc f => acc.add f.2) (ABuf.empty .right)).bits = (strip fs).flatMap (·.2) := by
  rw [foldl_add_fields]
  simp [ABuf.empty, strip, List.flatMap_map]

theorem filter_strip (p : String → Bool) (a b : Compute.Fields) (h : strip a = strip b) :
    strip (a.filter (fun f => p f.1)) = strip (b.filter (fun f => p f.1)) := by
  induction a generalizing b with
  | nil =>
    cases b with
    | nil => rfl
    | cons y ys => simp [strip] at h
  | cons x xs ih =>
    cases b with
    | nil => simp [strip] at h
    | cons y ys =>
      simp only [strip_cons, List.cons.injEq, Prod.mk.injEq] at h
      obtain ⟨⟨h1, h2⟩, h3⟩ := h
      simp only [List.filter_cons, h1]
      split
      · simp only [strip_cons, h1, h2, ih ys h3]
      · exact ih ys h3

theorem takeWhile_strip (p : String → Bool) (a b : Compute.Fields) (h : strip a = strip b) :
    strip (a.takeWhile (fun f => p f.1)) = strip (b.takeWhile (fun f => p f.1)) ∧
    strip (a.dropWhile (fun f => p f.1)) = strip (b.dropWhile (fun f => p f.1)) := by
  induction a generalizing b with
  | nil =>
    cases b with
    | nil => exact ⟨rfl, rfl⟩
    | cons y ys => simp [strip] at h
  | cons x xs ih =>
    cases b with
    | nil => simp [strip] at h
    | cons y ys =>
      simp only [strip_cons, List.cons.injEq, Prod.mk.injEq] at h
      obtain ⟨⟨h1, h2⟩, h3⟩ := h
      simp only [List.takeWhile_cons, List.dropWhile_cons, h1]
      split
      · exact ⟨by simp only [strip_cons, h1, h2, (ih ys h3).1], (ih ys h3).2⟩
      · exact ⟨rfl, by simp only [strip_cons, h1, h2, h3]⟩

/-! ### `CoAPParser.unparse` only looks at ids, lengths and bits -/

theorem encodeOption_strip (d : Nat) (v w : ABuf) (h : v.bits = w.bits) :
    (encodeOption d v).map strip = (encodeOption d w).map strip := by
  have hl : v.length = w.length := by simp [ABuf.length, h]
  unfold encodeOption
  simp only [hl, bind, Except.bind]
  cases extField Gen.CoAPF.OPTION_DELTA_EXTENDED d with
  | error e => rfl
  | ok a =>
    simp only
    cases extField Gen.CoAPF.OPTION_LENGTH_EXTENDED (w.length / 8) with
    | error e => rfl
    | ok b =>
      simp only [pure, Except.pure, Except.map, strip_append, strip_cons, strip_nil]
      split <;> simp [h]

theorem coapUnparseSemantic_strip (a b : Compute.Fields) (h : strip a = strip b) (ln : Option Nat) (prev : Nat) :
    (coapUnparseSemantic a ln prev).map strip = (coapUnparseSemantic b ln prev).map strip := by
  induction a generalizing b ln prev with
  | nil =>
    cases b with
    | nil => rfl
    | cons y ys => simp [strip] at h
  | cons x xs ih =>
    cases b with
    | nil => simp [strip] at h
    | cons y ys =>
      obtain ⟨xi, xv⟩ := x
      obtain ⟨yi, yv⟩ := y
      simp only [strip_cons, List.cons.injEq, Prod.mk.injEq] at h
      obtain ⟨⟨h1, h2⟩, h3⟩ := h
      subst h1
      unfold coapUnparseSemantic
      by_cases hf : coapFixedIds.contains xi = true
      · simp only [hf, if_true, bind, Except.bind]
        have := ih ys h3 ln prev
        cases h4 : coapUnparseSemantic xs ln prev with
        | error e =>
          rw [h4] at this
          cases h5 : coapUnparseSemantic ys ln prev with
          | error e' => rw [h5] at this; simpa [Except.map] using this
          | ok r' => rw [h5] at this; simp [Except.map] at this
        | ok r =>
          rw [h4] at this
          cases h5 : coapUnparseSemantic ys ln prev with
          | error e' => rw [h5] at this; simp [Except.map] at this
          | ok r' =>
            rw [h5] at this
            simp only [Except.map, Except.ok.injEq] at this
            simp [pure, Except.pure, Except.map, this, h2]
      · simp only [hf, if_false, bind, Except.bind]
        cases optionNumber xi ln with
        | error e => rfl
        | ok number =>
          simp only
          by_cases hlt : number < prev
          · simp [hlt]; rfl
          · simp only [hlt, if_false]
            have he := encodeOption_strip (number - prev) xv yv h2
            have := ih ys h3 (some number) number
            cases h6 : encodeOption (number - prev) xv with
            | error e =>
              rw [h6] at he
              cases h7 : encodeOption (number - prev) yv with
              | error e' => rw [h7] at he; simpa [Except.map] using he
              | ok o' => rw [h7] at he; simp [Except.map] at he
            | ok o =>
              rw [h6] at he
              cases h7 : encodeOption (number - prev) yv with
              | error e' => rw [h7] at he; simp [Except.map] at he
              | ok o' =>
                rw [h7] at he
                simp only [Except.map, Except.ok.injEq] at he
                simp only
                cases h4 : coapUnparseSemantic xs (some number) number with
                | error e =>
                  rw [h4] at this
                  cases h5 : coapUnparseSemantic ys (some number) number with
                  | error e' => rw [h5] at this; simpa [Except.map] using this
                  | ok r' => rw [h5] at this; simp [Except.map] at this
                | ok r =>
                  rw [h4] at this
                  cases h5 : coapUnparseSemantic ys (some number) number with
                  | error e' => rw [h5] at this; simp [Except.map] at this
                  | ok r' =>
                    rw [h5] at this
                    simp only [Except.map, Except.ok.injEq] at this
                    simp [pure, Except.pure, Except.map, this, he]

theorem headerUnparse_strip (p : ParserInst) (a b : Compute.Fields) (h : strip a = strip b) :
    (headerUnparse p a).map strip = (headerUnparse p b).map strip := by
  unfold headerUnparse
  split
  · unfold coapUnparse
    cases p.coapMode
    · simp [pure, Except.pure, Except.map, h]
    · exact coapUnparseSemantic_strip a b h none 0
  · simp [pure, Except.pure, Except.map, h]

theorem map_strip_cases {x y : Py Compute.Fields} (h : x.map strip = y.map strip) :
    (∃ e, x = .error e ∧ y = .error e) ∨ (∃ r r', x = .ok r ∧ y = .ok r' ∧ strip r = strip r') := by
  cases x with
  | error e =>
    cases y with
    | error e' => simp only [Except.map, Except.error.injEq] at h; subst h; exact .inl ⟨e, rfl, rfl⟩
    | ok r' => simp [Except.map] at h
  | ok r =>
    cases y with
    | error e' => simp [Except.map] at h
    | ok r' => simp only [Except.map, Except.ok.injEq] at h; exact .inr ⟨r, r', rfl, rfl, h⟩

/-! ### `PacketParser.unparse` -/

theorem unparseClaimed_strip (a b : Compute.Fields) (h : strip a = strip b) (pns : List (ParserInst × String)) :
    (unparseClaimed a pns).map (fun x => (strip x.1, strip x.2)) = (unparseClaimed b pns).map (fun x => (strip x.1, strip x.2)) := by
  induction pns generalizing a b with
  | nil => simp [unparseClaimed, pure, Except.pure, Except.map, h]
  | cons pn rest ih =>
    obtain ⟨p, n⟩ := pn
    unfold unparseClaimed
    have h1 := headerUnparse_strip p _ _ (takeWhile_strip (fun i => strContains i n) a b h).1
    have h2 := ih _ _ (takeWhile_strip (fun i => strContains i n) a b h).2
    rcases map_strip_cases h1 with ⟨e, e1, e2⟩ | ⟨r, r', e1, e2, e3⟩
    · simp only [bind, Except.bind, e1, e2]
    · simp only [bind, Except.bind, e1, e2]
      cases hx : unparseClaimed (List.dropWhile (fun f => strContains f.1 n) a) rest with
      | error e =>
        rw [hx] at h2
        cases hy : unparseClaimed (List.dropWhile (fun f => strContains f.1 n) b) rest with
        | error e' => rw [hy] at h2; simp only [Except.map, Except.error.injEq] at h2; subst h2; rfl
        | ok y => rw [hy] at h2; simp [Except.map] at h2
      | ok x =>
        rw [hx] at h2
        cases hy : unparseClaimed (List.dropWhile (fun f => strContains f.1 n) b) rest with
        | error e' => rw [hy] at h2; simp [Except.map] at h2
        | ok y =>
          rw [hy] at h2
          simp only [Except.map, Except.ok.injEq, Prod.mk.injEq] at h2
          simp [pure, Except.pure, Except.map, e3, h2.1, h2.2]

theorem packetUnparse_strip (ps : List ParserInst) (a b : Compute.Fields) (h : strip a = strip b) :
    (packetUnparse ps a).map strip = (packetUnparse ps b).map strip := by
  unfold packetUnparse
  cases ps.mapM parserNameOf with
  | error e => rfl
  | ok names =>
    simp only [bind, Except.bind]
    have h2 := unparseClaimed_strip a b h (ps.zip names)
    cases hx : unparseClaimed a (ps.zip names) with
    | error e =>
      rw [hx] at h2
      cases hy : unparseClaimed b (ps.zip names) with
      | error e' => rw [hy] at h2; simp only [Except.map, Except.error.injEq] at h2; subst h2; rfl
      | ok y => rw [hy] at h2; simp [Except.map] at h2
    | ok x =>
      rw [hx] at h2
      cases hy : unparseClaimed b (ps.zip names) with
      | error e' => rw [hy] at h2; simp [Except.map] at h2
      | ok y =>
        rw [hy] at h2
        simp only [Except.map, Except.ok.injEq, Prod.mk.injEq] at h2
        simp [pure, Except.pure, Except.map, h2.1, h2.2]

/-- dispatch: when, walking the stack, the fields not yet taken filtered by each parser's name are that parser's
    segment, the loop of `PacketParser.unparse` un-parses segment by segment and leaves what nobody took -/
def unparseSegs : List (ParserInst × Compute.Fields) → Py Compute.Fields
  | [] => pure []
  | (p, seg) :: rest => do
    let mine ← headerUnparse p seg
    let more ← unparseSegs rest
    pure (mine ++ more)

def SegsOf : Compute.Fields → List (ParserInst × String × Compute.Fields) → Prop
  | _, [] => True
  | rem, t :: rest => rem.takeWhile (fun f => strContains f.1 t.2.1) = t.2.2 ∧ SegsOf (rem.dropWhile (fun f => strContains f.1 t.2.1)) rest

def leftOver : Compute.Fields → List (ParserInst × String × Compute.Fields) → Compute.Fields
  | rem, [] => rem
  | rem, t :: rest => leftOver (rem.dropWhile (fun f => strContains f.1 t.2.1)) rest

theorem unparseClaimed_segments (fs : Compute.Fields) (ts : List (ParserInst × String × Compute.Fields)) (h : SegsOf fs ts) :
    unparseClaimed fs (ts.map fun t => (t.1, t.2.1)) = (unparseSegs (ts.map fun t => (t.1, t.2.2))).map (fun out => (out, leftOver fs ts)) := by
  induction ts generalizing fs with
  | nil => rfl
  | cons t rest ih =>
    obtain ⟨h1, h2⟩ := h
    simp only [List.map_cons, unparseClaimed, unparseSegs, leftOver]
    rw [h1, ih _ h2]
    cases headerUnparse t.1 t.2.2 with
    | error e => rfl
    | ok mine =>
      simp only [bind, Except.bind]
      cases unparseSegs (rest.map fun t => (t.1, t.2.2)) with
      | error e => rfl
      | ok more => rfl

/-! ### the dispatch in general: any number of header parsers, any stack shape -/

/-- `fs` is made of one run per parser of the stack, in stack order, followed by `rest`: every field of a run carries
    that parser's name, and the field right after the run (if any) does not -/
def RunsOf : Compute.Fields → List (ParserInst × String × Compute.Fields) → Compute.Fields → Prop
  | fs, [], rest => fs = rest
  | fs, t :: ts, rest => ∃ tail, fs = t.2.2 ++ tail ∧ (∀ x ∈ t.2.2, strContains x.1 t.2.1 = true) ∧
      (∀ y, tail.head? = some y → strContains y.1 t.2.1 = false) ∧ RunsOf tail ts rest

theorem takeWhile_run' {α} (p : α → Bool) (A R : List α) (hA : ∀ a ∈ A, p a = true) (hR : ∀ y, R.head? = some y → p y = false) :
    (A ++ R).takeWhile p = A ∧ (A ++ R).dropWhile p = R := by
  induction A with
  | nil =>
    cases R with
    | nil => exact ⟨rfl, rfl⟩
    | cons r rs => simp [List.takeWhile_cons, List.dropWhile_cons, hR r rfl]
  | cons a as ih =>
    have := ih (fun x hx => hA x (List.mem_cons_of_mem _ hx))
    simp [List.takeWhile_cons, List.dropWhile_cons, hA a (by simp), this.1, this.2]

theorem runs_segs (fs : Compute.Fields) (ts : List (ParserInst × String × Compute.Fields)) (rest : Compute.Fields) (h : RunsOf fs ts rest) :
    SegsOf fs ts ∧ leftOver fs ts = rest := by
  induction ts generalizing fs with
  | nil => exact ⟨trivial, h⟩
  | cons t ts ih =>
    obtain ⟨tail, h1, h2, h3, h4⟩ := h
    have r := takeWhile_run' (fun f : String × ABuf => strContains f.1 t.2.1) t.2.2 tail h2 h3
    subst h1
    obtain ⟨i1, i2⟩ := ih tail h4
    exact ⟨⟨r.1, by rw [r.2]; exact i1⟩, by simp only [leftOver, r.2]; exact i2⟩

/-- `PacketParser.unparse` on any field list that is made of one run per header parser: segment by segment, the rest
    unchanged — any number of parsers, classes repeated or not -/
theorem packetUnparse_runs (ts : List (ParserInst × String × Compute.Fields)) (fs rest : Compute.Fields)
    (hn : (ts.map (·.1)).mapM parserNameOf = .ok (ts.map (·.2.1))) (h : RunsOf fs ts rest) :
    packetUnparse (ts.map (·.1)) fs = (unparseSegs (ts.map fun t => (t.1, t.2.2))).map (· ++ rest) := by
  obtain ⟨h1, h2⟩ := runs_segs fs ts rest h
  unfold packetUnparse
  have hz : ∀ l : List (ParserInst × String × Compute.Fields), (l.map (·.1)).zip (l.map (·.2.1)) = l.map (fun t => (t.1, t.2.1)) := by
    intro l
    induction l with
    | nil => rfl
    | cons t l ih => simp only [List.map_cons, List.zip_cons_cons, ih]
  simp only [hn, bind, Except.bind, hz ts, unparseClaimed_segments fs ts h1, h2]
  cases unparseSegs (ts.map fun t => (t.1, t.2.2)) with
  | error e => rfl
  | ok out => rfl

/-! ### nothing lost, nothing duplicated -/

/-- a parser whose `unparse` is the base-class identity (everything but a CoAP parser in semantic mode) -/
def PlainUnparse (p : ParserInst) : Prop := p.cls = "CoAPParser" → p.coapMode = .syntactic

theorem headerUnparse_plain (p : ParserInst) (h : PlainUnparse p) (fs : Compute.Fields) : headerUnparse p fs = .ok fs := by
  unfold headerUnparse
  by_cases hc : p.cls = "CoAPParser"
  · simp [hc, h hc, coapUnparse, pure, Except.pure]
  · have : (p.cls == "CoAPParser") = false := by simpa using hc
    simp [this, pure, Except.pure]

theorem unparseClaimed_plain (rem : Compute.Fields) (pns : List (ParserInst × String)) (h : ∀ pn ∈ pns, PlainUnparse pn.1) :
    ∃ out left, unparseClaimed rem pns = .ok (out, left) ∧ out ++ left = rem := by
  induction pns generalizing rem with
  | nil => exact ⟨[], rem, rfl, by simp⟩
  | cons pn rest ih =>
    obtain ⟨p, n⟩ := pn
    obtain ⟨out, left, h1, h2⟩ := ih (rem.dropWhile (fun f => strContains f.1 n)) (fun x hx => h x (List.mem_cons_of_mem _ hx))
    refine ⟨rem.takeWhile (fun f => strContains f.1 n) ++ out, left, ?_, ?_⟩
    · unfold unparseClaimed
      simp only [headerUnparse_plain p (h (p, n) (by simp)), h1, bind, Except.bind, pure, Except.pure]
    · rw [List.append_assoc, h2, List.takeWhile_append_dropWhile]

/-- for every stack whose parsers all have the plain `unparse` — whatever its shape: a header class listed twice or
    again after another header (tunnels), next-header prediction, fields in any order — `PacketParser.unparse` is the
    identity: every field once, in the order given -/
theorem packetUnparse_plain (ps : List ParserInst) (names : List String) (hn : ps.mapM parserNameOf = .ok names)
    (h : ∀ p ∈ ps, PlainUnparse p) (fs : Compute.Fields) : packetUnparse ps fs = .ok fs := by
  obtain ⟨out, left, h1, h2⟩ := unparseClaimed_plain fs (ps.zip names) (fun pn hpn => h pn.1 (List.of_mem_zip hpn).1)
  unfold packetUnparse
  simp only [hn, h1, bind, Except.bind, pure, Except.pure, h2]

/-! ### `decompress(…, unparser=…)` for rules without compute fields -/

theorem decompressU_nocompute (r : Rule) (vs : List Bits) (h : AllAdm r.fields vs) (hnc : ∀ rf ∈ r.fields, rf.cda ≠ .compute)
    (payload : Bits) (side : Pad) (ps : List ParserInst) :
    ∃ res, residuesV r.fields vs = some res ∧
      decompressU ⟨r.id.bits ++ res ++ payload, side⟩ r (some ps) none =
        (packetUnparse ps (assemble r.fields vs ++ [(Gen.payloadId, ⟨payload, side⟩)])).map
          (fun fs => fs.foldl (fun acc f => acc.add f.2) (ABuf.empty .right)) := by
  obtain ⟨res, h1, h2⟩ := decompressFields_spec r.fields vs h payload side 0
  refine ⟨res, h1, ?_⟩
  unfold decompressU decompressToFieldsU restrictO
  have : (⟨r.id.bits ++ res ++ payload, side⟩ : ABuf).from_ r.id.length = ⟨res ++ payload, side⟩ := by
    simp [ABuf.from_, ABuf.length, List.append_assoc]
  simp only [this, h2, bind, Except.bind, computeEntries_nil _ _ hnc, sortEntries, List.foldl_nil]
  cases packetUnparse ps (assemble r.fields vs ++ [(Gen.payloadId, ⟨payload, side⟩)]) with
  | error e => rfl
  | ok fs => simp [runComputes, pure, Except.pure, Except.map]

end Schc
