/- C07: parsed fields tile the packet (cursor invariants of the CoAP and SCTP walks, fixed layouts, chaining). -/
import Schc.Proofs.ParseTotal

namespace Schc

def fbits (fs : List Field) : Bits := fs.flatMap (·.value.bits)

@[simp] theorem fbits_append (a b : List Field) : fbits (a ++ b) = fbits a ++ fbits b := by simp [fbits]
@[simp] theorem fbits_nil : fbits [] = [] := rfl
@[simp] theorem fbits_cons (f : Field) (fs : List Field) : fbits (f :: fs) = f.value.bits ++ fbits fs := by simp [fbits]

theorem sumFieldBits_eq (fs : List Field) : sumFieldBits fs = (fbits fs).length := by
  simp [sumFieldBits, fbits, List.length_flatMap, ABuf.length]

/-- consecutive slices of one buffer concatenate to one slice -/
theorem take_drop_add (l : Bits) (s a b : Nat) : (l.drop s).take a ++ (l.drop (s + a)).take b = (l.drop s).take (a + b) := by
  rw [List.take_add, List.drop_drop]

/-! ### CoAP -/

/-- the fields one option contributes spell the `off` bits it occupies -/
theorem option_fields_bits (ob : ABuf) (h : (optionHeader ob).off ≤ ob.length) (p1 p2 p3 p4 p5 : Nat) :
    let hd := optionHeader ob
    fbits ([⟨Gen.CoAPF.OPTION_DELTA, hd.delta, p1⟩, ⟨Gen.CoAPF.OPTION_LENGTH, hd.len, p2⟩]
        ++ (if hd.d13 || hd.d14 then [⟨Gen.CoAPF.OPTION_DELTA_EXTENDED, hd.deltaExt, p3⟩] else [])
        ++ (if hd.l13 || hd.l14 then [⟨Gen.CoAPF.OPTION_LENGTH_EXTENDED, hd.lenExt, p4⟩] else [])
        ++ (if hd.vlen > 0 then [⟨Gen.CoAPF.OPTION_VALUE, hd.value, p5⟩] else []))
      = ob.bits.take hd.off := by
  intro hd
  -- the five slices, present or not, are consecutive
  have hdelta : hd.delta.bits = (ob.bits.drop 0).take 4 := by simp [hd, optionHeader, ABuf.slice, Bits.slice]
  have hlen : hd.len.bits = (ob.bits.drop 4).take 4 := by simp [hd, optionHeader, ABuf.slice, Bits.slice]
  have hde : fbits (if hd.d13 || hd.d14 then [⟨Gen.CoAPF.OPTION_DELTA_EXTENDED, hd.deltaExt, p3⟩] else []) = (ob.bits.drop 8).take hd.dw := by
    simp only [hd, optionHeader]
    cases hd13 : ((ob.slice 0 4).content == Gen.coap_OPTION_DELTA_EXTENDED_8BITS) <;>
      cases hd14 : ((ob.slice 0 4).content == Gen.coap_OPTION_DELTA_EXTENDED_16BITS) <;>
      simp [ABuf.slice, Bits.slice]
  have hle : fbits (if hd.l13 || hd.l14 then [⟨Gen.CoAPF.OPTION_LENGTH_EXTENDED, hd.lenExt, p4⟩] else []) = (ob.bits.drop (8 + hd.dw)).take hd.lw := by
    simp only [hd, optionHeader]
    cases hl13 : ((ob.slice 4 8).content == Gen.coap_OPTION_DELTA_EXTENDED_8BITS) <;>
      cases hl14 : ((ob.slice 4 8).content == Gen.coap_OPTION_DELTA_EXTENDED_16BITS) <;>
      simp [ABuf.slice, Bits.slice]
  have hv : fbits (if hd.vlen > 0 then [⟨Gen.CoAPF.OPTION_VALUE, hd.value, p5⟩] else []) = (ob.bits.drop (8 + hd.dw + hd.lw)).take hd.vlen := by
    by_cases hvl : hd.vlen > 0
    · have : hd.value = ob.slice (8 + hd.dw + hd.lw) (8 + hd.dw + hd.lw + hd.vlen) := by
        simp only [hd, optionHeader] at hvl ⊢; simp only [hvl, if_true]
      simp [hvl, this, ABuf.slice, Bits.slice]
    · have : hd.vlen = 0 := by omega
      simp [hvl, this]
  have hoff : hd.off = 4 + 4 + hd.dw + hd.lw + hd.vlen := by simp only [hd, optionHeader]
  simp only [fbits_append, fbits_cons, fbits_nil, List.append_nil, hdelta, hlen, hde, hle, hv, List.append_assoc]
  rw [hoff]
  have e1 := take_drop_add ob.bits 0 4 4
  have e2 := take_drop_add ob.bits 0 (4 + 4) hd.dw
  have e3 := take_drop_add ob.bits 0 (4 + 4 + hd.dw) hd.lw
  have e4 := take_drop_add ob.bits 0 (4 + 4 + hd.dw + hd.lw) hd.vlen
  simp only [Nat.zero_add, List.drop_zero] at e1 e2 e3 e4
  rw [← e4, ← e3, ← e2, ← e1]
  simp only [List.append_assoc, List.drop_zero]

end Schc

namespace Schc

theorem optionStep_syn_fields (buffer : ABuf) (st st' : OptState) (h : optionStep buffer .syntactic st = .ok (some st')) :
    fbits st'.fields = fbits st.fields ++ (buffer.from_ st.cursor).bits.take (optionHeader (buffer.from_ st.cursor)).off := by
  obtain ⟨_, _, hoff⟩ := optionStep_progress buffer .syntactic st st' h
  unfold optionStep at h
  split at h
  · simp [pure, Except.pure] at h
  · simp only [bind, Except.bind] at h
    split at h
    · simp [throw, throwThe, MonadExceptOf.throw] at h
    · simp only [pure, Except.pure, Except.ok.injEq, Option.some.injEq] at h
      subst h
      show fbits (st.fields ++ _) = _
      rw [fbits_append]
      congr 1
      exact option_fields_bits (buffer.from_ st.cursor) hoff _ _ _ _ _

/-- the cursor invariant of the option walk: the fields emitted so far spell the first `cursor` bits -/
theorem optionLoop_tiles (buffer : ABuf) (fuel : Nat) (st st' : OptState)
    (hinv : fbits st.fields = buffer.bits.take st.cursor) (hc : st.cursor ≤ buffer.length)
    (h : optionLoop buffer .syntactic fuel st = .ok st') :
    fbits st'.fields = buffer.bits.take st'.cursor ∧ st'.cursor ≤ buffer.length ∧ optionStep buffer .syntactic st' = .ok none := by
  induction fuel generalizing st with
  | zero => simp [optionLoop, throw, throwThe, MonadExceptOf.throw] at h
  | succ fuel ih =>
    unfold optionLoop at h
    simp only [bind, Except.bind] at h
    cases hs : optionStep buffer .syntactic st with
    | error e => simp [hs] at h
    | ok r =>
      cases r with
      | none => simp only [hs, pure, Except.pure, Except.ok.injEq] at h; subst h; exact ⟨hinv, hc, hs⟩
      | some s2 =>
        simp only [hs] at h
        obtain ⟨h1, h2, h3⟩ := optionStep_progress _ _ _ _ hs
        have hf := optionStep_syn_fields _ _ _ hs
        rw [from_length] at h3
        apply ih s2 _ _ h
        · rw [hf, hinv, h2]
          simp only [ABuf.from_]
          rw [List.take_add]
        · omega

theorem content_eq_255 (x : ABuf) (hl : x.bits.length ≤ 8) (h : x.content = [255]) : x.bits = List.replicate 8 true := by
  have hb := bytesBits_content x
  rw [h] at hb
  have h255 : ABuf.bytesBits [255] = List.replicate 8 true := by decide
  rw [h255] at hb
  have hcl := content_length x
  rw [h] at hcl
  simp only [List.length_singleton] at hcl
  have hp := padLen_lt x.bits.length
  have hpa := padLen_add x.bits.length
  have hn : x.bits.length + padLenOf x.bits.length = 8 := by omega
  cases hs : x.side <;> rw [hs] at hb <;> simp only at hb
  · -- left: zeros pl ++ bits = eight ones, so pl = 0
    have : padLenOf x.bits.length = 0 := by
      by_contra hne
      have hpos : 0 < padLenOf x.bits.length := Nat.pos_of_ne_zero hne
      have := congrArg (fun l => l.head?) hb
      simp only [Bits.zeros] at this
      cases hq : padLenOf x.bits.length with
      | zero => omega
      | succ q => rw [hq] at this; simp [List.replicate_succ] at this
    rw [this] at hb; simpa [Bits.zeros] using hb.symm
  · have : padLenOf x.bits.length = 0 := by
      by_contra hne
      have hpos : 0 < padLenOf x.bits.length := Nat.pos_of_ne_zero hne
      have := congrArg (fun l => l.getLast?) hb
      simp only [Bits.zeros] at this
      cases hq : padLenOf x.bits.length with
      | zero => omega
      | succ q => rw [hq] at this; simp [List.replicate_succ'] at this
    rw [this] at hb; simpa [Bits.zeros] using hb.symm

end Schc

namespace Schc

def Tiles (b : ABuf) (h : Header) : Prop := fbits h.fields = b.bits.take h.length ∧ h.length ≤ b.length

theorem parseOptions_tiles (ob : ABuf) (fuel : Nat) (fs : List Field) (consumed : Nat)
    (h : parseOptions ob .syntactic fuel = .ok (fs, consumed)) : fbits fs = ob.bits.take consumed ∧ consumed ≤ ob.length := by
  unfold parseOptions at h
  simp only [bind, Except.bind] at h
  cases hl : optionLoop ob .syntactic fuel {} with
  | error e => simp [hl] at h
  | ok st =>
    simp only [hl] at h
    obtain ⟨h1, h2, h3⟩ := optionLoop_tiles ob fuel {} st (by simp) (by simp) hl
    split at h
    · rename_i hlt
      simp only [pure, Except.pure, Except.ok.injEq, Prod.mk.injEq] at h
      obtain ⟨hfs, hcons⟩ := h
      subst hfs; subst hcons
      -- the loop stopped on the payload marker
      have hm : (ob.slice st.cursor (st.cursor + 8)).content = Gen.coap_PAYLOAD_MARKER_VALUE := by
        unfold optionStep at h3
        split at h3
        · rename_i hc
          by_contra hne
          exact hc ⟨hlt, hne⟩
        · simp only [bind, Except.bind] at h3
          split at h3
          · simp [throw, throwThe, MonadExceptOf.throw] at h3
          · simp [pure, Except.pure] at h3
      have hbits := content_eq_255 (ob.slice st.cursor (st.cursor + 8)) (by simp [ABuf.slice, Bits.slice]; omega) hm
      have hlen8 : ((ob.bits.drop st.cursor).take 8).length = 8 := by
        have := congrArg List.length hbits
        simpa [ABuf.slice, Bits.slice] using this
      constructor
      · rw [fbits_append, h1]
        simp only [fbits_cons, fbits_nil, List.append_nil, ABuf.ofNat]
        have : Bits.ofNat 8 255 = List.replicate 8 true := by decide
        rw [this, ← hbits]
        simp only [ABuf.slice, Bits.slice, Nat.add_sub_cancel_left]
        rw [← List.take_add]
      · simp only [List.length_take, List.length_drop, ABuf.length] at hlen8 h2 ⊢; omega
    · simp only [pure, Except.pure, Except.ok.injEq, Prod.mk.injEq] at h
      obtain ⟨hfs, hcons⟩ := h
      subst hfs; subst hcons
      exact ⟨h1, h2⟩

theorem asParserError_ok {α} (m : Py α) (x : α) (h : asParserError m = .ok x) : m = .ok x := by
  cases m with
  | ok a => simpa [asParserError] using h
  | error e => cases e <;> simp [asParserError] at h

/-- C07 for the CoAP parser (syntactic option mode) -/
theorem coapParse_tiles (fuel : Nat) (b : ABuf) (h : Header) (hp : coapParse .syntactic fuel b = .ok h) : Tiles b h := by
  unfold coapParse at hp
  by_cases hlen : b.length < Gen.coapMinLength
  · simp [hlen, bind, Except.bind, throw, throwThe, MonadExceptOf.throw] at hp
  · simp only [hlen, if_false, bind, Except.bind] at hp
    have h32 : 32 ≤ b.bits.length := by simpa [Gen.coapMinLength, ABuf.length] using hlen
    have hfix : fbits (parseFixed Gen.coapFixedLayout b) = b.bits.take 32 := by
      have := parseFixed_prefix Spec.rfc7252Fixed 0 b
      have hl : Gen.coapFixedLayout = Spec.layoutFrom 0 Spec.rfc7252Fixed := by decide
      rw [hl]; simpa [fbits, Spec.totalWidth, Spec.rfc7252Fixed] using this
    cases hi : idx (fieldValue (parseFixed Gen.coapFixedLayout b) Gen.CoAPF.TOKEN_LENGTH).content 0 with
    | error e => simp [hi] at hp
    | ok v =>
      simp only [hi] at hp
      have htok : (b.slice 32 (32 + v * 8)).bits = (b.bits.drop 32).take (v * 8) := by simp [ABuf.slice, Bits.slice]
      have hhf : fbits (if v > 0 then parseFixed Gen.coapFixedLayout b ++ [⟨Gen.CoAPF.TOKEN, b.slice 32 (32 + v * 8), 0⟩] else parseFixed Gen.coapFixedLayout b)
          = b.bits.take 32 ++ (b.bits.drop 32).take (v * 8) := by
        by_cases hv : v > 0
        · simp [hv, hfix, htok]
        · have : v = 0 := by omega
          simp [this, hfix]
      by_cases hob : (b.from_ (32 + v * 8)).length > 0
      · simp only [hob, if_true] at hp
        cases hpo : asParserError (parseOptions (b.from_ (32 + v * 8)) .syntactic fuel) with
        | error e => simp [hpo] at hp
        | ok r =>
          obtain ⟨ofs, consumed⟩ := r
          simp only [hpo, pure, Except.pure, Except.ok.injEq] at hp
          subst hp
          obtain ⟨t1, t2⟩ := parseOptions_tiles _ _ _ _ (asParserError_ok _ _ hpo)
          rw [from_length] at hob t2
          have hb : 32 + v * 8 < b.bits.length := by simp only [ABuf.length] at hob; omega
          have htl : (b.slice 32 (32 + v * 8)).bits.length = v * 8 := by simp [ABuf.slice, Bits.slice]; omega
          constructor
          · simp only [fbits_append, hhf, t1, ABuf.length, htl, ABuf.from_]
            have e1 := take_drop_add b.bits 0 32 (v * 8)
            have e2 := take_drop_add b.bits 0 (32 + v * 8) consumed
            simp only [Nat.zero_add, List.drop_zero] at e1 e2
            rw [e1, e2]
          · simp only [ABuf.length, htl] at t2 ⊢; omega
      · simp only [hob, if_false, pure, Except.pure, Except.ok.injEq] at hp
        subst hp
        rw [from_length] at hob
        have hb : b.bits.length ≤ 32 + v * 8 := by simp only [ABuf.length] at hob; omega
        have htl : (b.slice 32 (32 + v * 8)).bits.length = b.bits.length - 32 := by simp [ABuf.slice, Bits.slice]; omega
        constructor
        · simp only [fbits_append, fbits_nil, List.append_nil, hhf, ABuf.length, htl, Nat.add_zero]
          have e1 : (b.bits.drop 32).take (v * 8) = b.bits.drop 32 := List.take_of_length_le (by simp; omega)
          have e2 : b.bits.take (32 + (b.bits.length - 32)) = b.bits := List.take_of_length_le (by omega)
          rw [e1, e2, List.take_append_drop]
        · simp only [ABuf.length, htl]; omega

end Schc

namespace Schc

/-! ### SCTP -/

theorem fixed_prefix (layout : Layout) (ws : List (String × Nat)) (hl : layout = Spec.layoutFrom 0 ws) (b : ABuf) :
    fbits (parseFixed layout b) = b.bits.take (Spec.totalWidth ws) := by
  rw [hl]; simpa [fbits] using parseFixed_prefix ws 0 b

theorem sctpParameter_tiles (b : ABuf) (fs : List Field) (c : Nat) (h : sctpParameter b = .ok (fs, c)) : fbits fs = b.bits.take c := by
  unfold sctpParameter at h
  simp only [bind, Except.bind] at h
  split at h
  · simp [throw, throwThe, MonadExceptOf.throw] at h
  · rename_i hg
    simp only [pure, Except.pure, Except.ok.injEq, Prod.mk.injEq] at h
    obtain ⟨hfs, hc⟩ := h
    subst hfs; subst hc
    generalize hplv : (fieldValue (parseFixed Gen.sctpParameterLayout b) Gen.SCTPF.PARAMETER_LENGTH).value * 8 = plv at *
    have hge : 32 ≤ plv := by
      by_contra hn; exact hg (Or.inr (by omega))
    have hfix : fbits (parseFixed Gen.sctpParameterLayout b) = b.bits.take 32 := by
      have := fixed_prefix Gen.sctpParameterLayout Spec.rfc9260Parameter (by decide) b
      simpa [Spec.totalWidth, Spec.rfc9260Parameter] using this
    generalize hpad : (32 - (plv - 32) % 32) % 32 = pad at *
    have e1 := take_drop_add b.bits 0 32 (plv - 32)
    have e2 := take_drop_add b.bits 0 plv pad
    simp only [Nat.zero_add, List.drop_zero] at e1 e2
    have e3 : 32 + (plv - 32) = plv := by omega
    rw [e3] at e1
    have hv : fbits (if plv - 32 > 0 then parseFixed Gen.sctpParameterLayout b ++ [⟨Gen.SCTPF.PARAMETER_VALUE, b.slice 32 plv, 0⟩] else parseFixed Gen.sctpParameterLayout b)
        = b.bits.take plv := by
      by_cases hv : plv - 32 > 0
      · simp only [hv, if_true, fbits_append, fbits_cons, fbits_nil, List.append_nil, hfix, ABuf.slice, Bits.slice]; exact e1
      · have h0 : plv = 32 := by omega
        subst h0; simp [hfix]
    generalize hfv : (if plv - 32 > 0 then parseFixed Gen.sctpParameterLayout b ++ [⟨Gen.SCTPF.PARAMETER_VALUE, b.slice 32 plv, 0⟩] else parseFixed Gen.sctpParameterLayout b) = fv at *
    by_cases hp : pad > 0
    · simp only [hp, if_true, fbits_append, fbits_cons, fbits_nil, List.append_nil, hv, ABuf.slice, Bits.slice, Nat.add_sub_cancel_left]
      exact e2
    · have h0 : pad = 0 := by omega
      subst h0; simp [hv]

theorem sctpParameters_tiles (fuel : Nat) (b : ABuf) (fs : List Field) (h : sctpParameters fuel b = .ok fs) : fbits fs = b.bits := by
  induction fuel generalizing b fs with
  | zero =>
    unfold sctpParameters at h
    split at h
    · simp [throw, throwThe, MonadExceptOf.throw] at h
    · rename_i hb
      simp only [pure, Except.pure, Except.ok.injEq] at h; subst h
      have : b.bits.length = 0 := by simp only [ABuf.length] at hb; omega
      simp [List.length_eq_zero_iff.mp this]
  | succ fuel ih =>
    unfold sctpParameters at h
    split at h
    · simp only [bind, Except.bind] at h
      cases hp : sctpParameter b with
      | error e => simp [hp] at h
      | ok r =>
        obtain ⟨f1, c⟩ := r
        simp only [hp] at h
        cases hr : sctpParameters fuel (b.from_ c) with
        | error e => simp [hr] at h
        | ok rest =>
          simp only [hr, pure, Except.pure, Except.ok.injEq] at h; subst h
          rw [fbits_append, sctpParameter_tiles b f1 c hp, ih _ _ hr]
          simp [ABuf.from_]
    · rename_i hb
      simp only [pure, Except.pure, Except.ok.injEq] at h; subst h
      have : b.bits.length = 0 := by simp only [ABuf.length] at hb; omega
      simp [List.length_eq_zero_iff.mp this]

theorem sackBlocks_succ (n : Nat) (r : ABuf) :
    sackBlocks (n + 1) r = (⟨Gen.SCTPF.CHUNK_SACK_GAP_ACK_BLOCK_START, r.slice 0 16, 0⟩ :: ⟨Gen.SCTPF.CHUNK_SACK_GAP_ACK_BLOCK_END, r.slice 16 32, 0⟩ :: (sackBlocks n (r.from_ 32)).1,
      (sackBlocks n (r.from_ 32)).2) := by
  simp [sackBlocks]

theorem sackBlocks_tiles (n : Nat) (r : ABuf) : fbits (sackBlocks n r).1 = r.bits.take (32 * n) ∧ (sackBlocks n r).2 = r.from_ (32 * n) := by
  induction n generalizing r with
  | zero => simp [sackBlocks, ABuf.from_]
  | succ n ih =>
    obtain ⟨i1, i2⟩ := ih (r.from_ 32)
    rw [sackBlocks_succ]
    constructor
    · rw [fbits_cons, fbits_cons, i1]
      simp only [ABuf.slice, Bits.slice, ABuf.from_, Nat.sub_zero, Nat.reduceSub, List.drop_zero]
      have e1 := take_drop_add r.bits 0 16 16
      have e2 := take_drop_add r.bits 0 32 (32 * n)
      simp only [Nat.zero_add, List.drop_zero, Nat.reduceAdd] at e1 e2
      rw [← List.append_assoc, e1, e2]
      congr 1; omega
    · rw [i2]
      simp only [ABuf.from_, List.drop_drop]
      congr 2; omega

theorem sackDups_tiles (n : Nat) (r : ABuf) : fbits (sackDups n r) = r.bits.take (32 * n) := by
  induction n generalizing r with
  | zero => simp [sackDups]
  | succ n ih =>
    simp only [sackDups, fbits_cons, ih, ABuf.slice, Bits.slice, ABuf.from_]
    have e2 := take_drop_add r.bits 0 32 (32 * n)
    simp only [Nat.zero_add, List.drop_zero] at e2
    simp only [Nat.sub_zero, List.drop_zero]
    rw [e2]; congr 1; omega

/-- the fields of a chunk value always spell a prefix of it -/
theorem sctpChunkValue_prefix (fuel t : Nat) (cv : ABuf) (cf : List Field) (h : sctpChunkValue fuel t cv = .ok cf) :
    ∃ k, fbits cf = cv.bits.take k := by
  unfold sctpChunkValue at h
  simp only [bind, Except.bind, pure, Except.pure] at h
  have whole : ∀ l : Bits, l = l.take l.length := fun l => (List.take_length).symm
  have initCase : ∀ (layout : Layout) (pre : String), layout = Spec.layoutFrom 0 (Spec.rfc9260Init pre) →
      ∀ ps, sctpParameters fuel (cv.from_ 128) = .ok ps → fbits (parseFixed layout cv ++ ps) = cv.bits := by
    intro layout pre hl ps hps
    rw [fbits_append, fixed_prefix layout _ hl cv, sctpParameters_tiles _ _ _ hps]
    simp [Spec.totalWidth, Spec.rfc9260Init, ABuf.from_]
  split at h
  · simp only [Except.ok.injEq] at h; subst h
    refine ⟨cv.bits.length, ?_⟩
    have hl : Gen.sctpDataLayout = Spec.layoutFrom 0 Spec.rfc9260Data ++ [("SCTP:Data Payload", 96, none, 0)] := by decide
    rw [hl]
    have : parseFixed (Spec.layoutFrom 0 Spec.rfc9260Data ++ [("SCTP:Data Payload", 96, none, 0)]) cv
        = parseFixed (Spec.layoutFrom 0 Spec.rfc9260Data) cv ++ [⟨"SCTP:Data Payload", cv.slice 96 cv.length, 0⟩] := by
      simp [parseFixed]
    rw [this, fbits_append, fixed_prefix _ Spec.rfc9260Data rfl cv]
    simp only [Spec.totalWidth, Spec.rfc9260Data, List.map_cons, List.map_nil, List.sum_cons, List.sum_nil, fbits_cons, fbits_nil,
      List.append_nil, ABuf.slice, Bits.slice, ABuf.length, Nat.add_zero, Nat.reduceAdd]
    have e : List.take (cv.bits.length - 96) (List.drop 96 cv.bits) = List.drop 96 cv.bits := List.take_of_length_le (by simp)
    rw [e, List.take_append_drop]
    exact whole _
  · split at h
    · cases hps : sctpParameters fuel (cv.from_ 128) with
      | error e => simp [hps] at h
      | ok ps =>
        simp only [hps, Except.ok.injEq] at h; subst h
        exact ⟨cv.bits.length, by rw [initCase _ "SCTP:Init " (by decide) ps hps]; exact whole _⟩
    · split at h
      · cases hps : sctpParameters fuel (cv.from_ 128) with
        | error e => simp [hps] at h
        | ok ps =>
          simp only [hps, Except.ok.injEq] at h; subst h
          exact ⟨cv.bits.length, by rw [initCase _ "SCTP:Init Ack " (by decide) ps hps]; exact whole _⟩
      · split at h
        · simp only [Except.ok.injEq] at h; subst h
          generalize (fieldValue (parseFixed Gen.sctpSackLayout cv) Gen.SCTPF.CHUNK_SACK_NUMBER_GAP_ACK_BLOCKS).value = g
          generalize (fieldValue (parseFixed Gen.sctpSackLayout cv) Gen.SCTPF.CHUNK_SACK_NUMBER_DUPLICATE_TSNS).value = d
          obtain ⟨b1, b2⟩ := sackBlocks_tiles g (cv.from_ 96)
          refine ⟨96 + 32 * g + 32 * d, ?_⟩
          rw [fbits_append, fbits_append, b1, b2, sackDups_tiles, fixed_prefix _ Spec.rfc9260Sack (by decide) cv]
          simp only [Spec.totalWidth, Spec.rfc9260Sack, List.map_cons, List.map_nil, List.sum_cons, List.sum_nil, ABuf.from_, List.drop_drop,
            Nat.add_zero, Nat.reduceAdd]
          have e1 := take_drop_add cv.bits 0 96 (32 * g)
          have e2 := take_drop_add cv.bits 0 (96 + 32 * g) (32 * d)
          simp only [Nat.zero_add, List.drop_zero] at e1 e2
          rw [e1, e2]
        · split at h
          · exact ⟨cv.bits.length, by rw [sctpParameters_tiles _ _ _ h]; exact whole _⟩
          · split at h
            · simp only [Except.ok.injEq] at h; subst h
              exact ⟨32, by rw [fixed_prefix _ Spec.rfc9260Shutdown (by decide) cv]; rfl⟩
            · split at h
              · simp only [Except.ok.injEq] at h; subst h; exact ⟨0, by simp⟩
              · split at h
                · simp only [Except.ok.injEq] at h; subst h; exact ⟨cv.bits.length, by simp⟩
                · simp only [Except.ok.injEq] at h; subst h; exact ⟨cv.bits.length, by simp⟩

end Schc

namespace Schc

theorem sctpChunkBody_tiles (fuel : Nat) (b : ABuf) (clv : Nat) (hge : 32 ≤ clv) (fs : List Field)
    (h : sctpChunkBody fuel b (parseFixed Gen.sctpChunkHeaderLayout b) clv = .ok fs) : fbits fs = b.bits.take clv := by
  have hfix : fbits (parseFixed Gen.sctpChunkHeaderLayout b) = b.bits.take 32 := by
    have := fixed_prefix Gen.sctpChunkHeaderLayout Spec.rfc9260ChunkHeader (by decide) b
    simpa [Spec.totalWidth, Spec.rfc9260ChunkHeader] using this
  unfold sctpChunkBody at h
  simp only [bind, Except.bind] at h
  split at h
  · cases hcv : sctpChunkValue fuel (fieldValue (parseFixed Gen.sctpChunkHeaderLayout b) Gen.SCTPF.CHUNK_TYPE).value (b.slice 32 (32 + (clv - 32))) with
    | error e => simp [hcv] at h
    | ok cf =>
      simp only [hcv] at h
      split at h
      · simp [throw, throwThe, MonadExceptOf.throw] at h
      · rename_i hsum
        simp only [pure, Except.pure, Except.ok.injEq] at h; subst h
        obtain ⟨k, hk⟩ := sctpChunkValue_prefix _ _ _ _ hcv
        have hsum' : sumFieldBits cf = (b.slice 32 (32 + (clv - 32))).length := by
          by_contra hne; exact hsum hne
        rw [sumFieldBits_eq, hk] at hsum'
        have hall : fbits cf = (b.slice 32 (32 + (clv - 32))).bits := by
          rw [hk]; apply List.take_of_length_le
          simp only [List.length_take, ABuf.length] at hsum'; omega
        rw [fbits_append, hfix, hall]
        simp only [ABuf.slice, Bits.slice, Nat.add_sub_cancel_left]
        have e1 := take_drop_add b.bits 0 32 (clv - 32)
        simp only [Nat.zero_add, List.drop_zero] at e1
        rw [e1]; congr 1; omega
  · rename_i hv
    have h0 : clv = 32 := by omega
    simp only [pure, Except.pure, Except.ok.injEq] at h; subst h
    rw [hfix, h0]

theorem sctpChunk_tiles (fuel : Nat) (b : ABuf) (fs : List Field) (c : Nat) (h : sctpChunk fuel b = .ok (fs, c)) : fbits fs = b.bits.take c := by
  unfold sctpChunk at h
  simp only [bind, Except.bind] at h
  split at h
  · simp [throw, throwThe, MonadExceptOf.throw] at h
  · rename_i hg
    generalize hclv : (fieldValue (parseFixed Gen.sctpChunkHeaderLayout b) Gen.SCTPF.CHUNK_LENGTH).value * 8 = clv at *
    have hge : 32 ≤ clv := by
      by_contra hn; exact hg (Or.inr (by omega))
    generalize hpad : (32 - clv % 32) % 32 = pad at *
    cases hb : sctpChunkBody fuel b (parseFixed Gen.sctpChunkHeaderLayout b) clv with
    | error e => simp [hb] at h
    | ok fs1 =>
      have hf1 := sctpChunkBody_tiles fuel b clv hge fs1 hb
      simp only [hb, pure, Except.pure, Except.ok.injEq, Prod.mk.injEq] at h
      obtain ⟨hfs, hc⟩ := h; subst hfs; subst hc
      have e2 := take_drop_add b.bits 0 clv pad
      simp only [Nat.zero_add, List.drop_zero] at e2
      by_cases hp : pad > 0 ∧ (b.slice clv (clv + pad)).length > 0
      · rw [if_pos hp]
        simp only [fbits_append, fbits_cons, fbits_nil, List.append_nil, hf1, ABuf.slice, Bits.slice, Nat.add_sub_cancel_left]
        exact e2
      · rw [if_neg hp, hf1]
        have : (b.bits.drop clv).take pad = [] := by
          by_cases hp0 : pad > 0
          · have : ¬ (b.slice clv (clv + pad)).length > 0 := fun hh => hp ⟨hp0, hh⟩
            simp only [ABuf.slice, Bits.slice, ABuf.length, Nat.add_sub_cancel_left] at this
            exact List.length_eq_zero_iff.mp (by omega)
          · have : pad = 0 := by omega
            simp [this]
        rw [← e2, this, List.append_nil]

end Schc

namespace Schc

theorem sctpChunks_tiles (fuel pf : Nat) (b : ABuf) (fs : List Field) (h : sctpChunks fuel pf b = .ok fs) : fbits fs = b.bits := by
  induction fuel generalizing b fs with
  | zero =>
    unfold sctpChunks at h
    split at h
    · simp [throw, throwThe, MonadExceptOf.throw] at h
    · rename_i hb
      simp only [pure, Except.pure, Except.ok.injEq] at h; subst h
      have : b.bits.length = 0 := by simp only [ABuf.length] at hb; omega
      simp [List.length_eq_zero_iff.mp this]
  | succ fuel ih =>
    unfold sctpChunks at h
    split at h
    · simp only [bind, Except.bind] at h
      cases hp : sctpChunk pf b with
      | error e => simp [hp] at h
      | ok r =>
        obtain ⟨f1, c⟩ := r
        simp only [hp] at h
        cases hr : sctpChunks fuel pf (b.from_ c) with
        | error e => simp [hr] at h
        | ok rest =>
          simp only [hr, pure, Except.pure, Except.ok.injEq] at h; subst h
          rw [fbits_append, sctpChunk_tiles pf b f1 c hp, ih _ _ hr]
          simp [ABuf.from_]
    · rename_i hb
      simp only [pure, Except.pure, Except.ok.injEq] at h; subst h
      have : b.bits.length = 0 := by simp only [ABuf.length] at hb; omega
      simp [List.length_eq_zero_iff.mp this]

/-- C07 for the SCTP parser -/
theorem sctpParse_tiles (fuel : Nat) (b : ABuf) (h : Header) (hp : sctpParse fuel b = .ok h) : Tiles b h := by
  unfold sctpParse at hp
  by_cases hlen : b.length < Gen.sctpMinLength
  · simp [hlen, bind, Except.bind, throw, throwThe, MonadExceptOf.throw] at hp
  · simp only [hlen, if_false, bind, Except.bind] at hp
    cases hc : sctpChunks fuel fuel (b.from_ 96) with
    | error e => simp [hc] at hp
    | ok cs =>
      simp only [hc, pure, Except.pure, Except.ok.injEq] at hp; subst hp
      refine ⟨?_, Nat.le_refl _⟩
      have hfix : fbits (parseFixed Gen.sctpCommonLayout b) = b.bits.take 96 := by
        have := fixed_prefix Gen.sctpCommonLayout Spec.rfc9260Common (by decide) b
        simpa [Spec.totalWidth, Spec.rfc9260Common] using this
      show fbits (parseFixed Gen.sctpCommonLayout b ++ cs) = b.bits.take b.length
      rw [fbits_append, hfix, sctpChunks_tiles _ _ _ _ hc]
      simp [ABuf.from_, ABuf.length]

/-- chaining: when header `h` tiles `b` and the next header tiles the rest, their concatenation tiles `b` -/
theorem tiles_chain (b : ABuf) (hl : Nat) (fs : List Field) (nh : Header)
    (h1 : fbits fs = b.bits.take hl) (h1l : hl ≤ b.length) (h2 : Tiles (b.from_ hl) nh) :
    Tiles b ⟨hl + nh.length, fs ++ nh.fields⟩ := by
  obtain ⟨t1, t2⟩ := h2
  rw [from_length] at t2
  constructor
  · show fbits (fs ++ nh.fields) = b.bits.take (hl + nh.length)
    rw [fbits_append, h1, t1]
    simp only [ABuf.from_]
    have := take_drop_add b.bits 0 hl nh.length
    simpa using this
  · show hl + nh.length ≤ b.length
    omega

theorem nextFromUdp_tiles (fuel id : Nat) (b : ABuf) (h : Header) (hp : nextFromUdp fuel id b = .ok h) : Tiles b h := by
  unfold nextFromUdp at hp
  split at hp
  · exact coapParse_tiles fuel b h hp
  · exact sctpParse_tiles fuel b h hp
  · simp [throw, throwThe, MonadExceptOf.throw] at hp
  · simp [throw, throwThe, MonadExceptOf.throw] at hp

theorem udpParse_tiles (fuel : Nat) (predict : Bool) (b : ABuf) (h : Header) (hp : udpParse fuel predict b = .ok h) : Tiles b h := by
  unfold udpParse at hp
  by_cases hlen : b.length < Gen.udpMinLength
  · simp [hlen, bind, Except.bind, throw, throwThe, MonadExceptOf.throw] at hp
  · simp only [hlen, if_false, bind, Except.bind] at hp
    have hfix : fbits (parseFixed Gen.udpLayout b) = b.bits.take 64 := by
      have := fixed_prefix Gen.udpLayout Spec.rfc768 (by decide) b
      simpa [Spec.totalWidth, Spec.rfc768] using this
    have h64 : 64 ≤ b.length := by simp only [Gen.udpMinLength] at hlen; omega
    have base : Tiles b ⟨Gen.udpHeaderLength, parseFixed Gen.udpLayout b⟩ := ⟨hfix, h64⟩
    cases predict
    · simp only [Bool.false_eq_true, if_false, pure, Except.pure, Except.ok.injEq] at hp; subst hp; exact base
    · simp only [if_true] at hp
      split at hp
      · cases hn : nextFromUdp fuel (fieldValue (parseFixed Gen.udpLayout b) Gen.UDPF.DESTINATION_PORT).value (b.from_ Gen.udpHeaderLength) with
        | error e => simp [hn] at hp
        | ok nh =>
          simp only [hn, pure, Except.pure, Except.ok.injEq] at hp; subst hp
          exact tiles_chain b Gen.udpHeaderLength _ nh hfix h64 (nextFromUdp_tiles _ _ _ _ hn)
      · simp only [pure, Except.pure, Except.ok.injEq] at hp; subst hp; exact base

theorem nextFromIp_tiles (fuel id : Nat) (b : ABuf) (h : Header) (hp : nextFromIp fuel id b = .ok h) : Tiles b h := by
  unfold nextFromIp at hp
  split at hp
  · exact udpParse_tiles fuel true b h hp
  · exact sctpParse_tiles fuel b h hp
  · exact coapParse_tiles fuel b h hp
  · simp [throw, throwThe, MonadExceptOf.throw] at hp
  · simp [throw, throwThe, MonadExceptOf.throw] at hp

theorem ipParse_tiles (layout : Layout) (ws : List (String × Nat)) (hl : layout = Spec.layoutFrom 0 ws)
    (minLen hdrLen : Nat) (hmin : hdrLen ≤ minLen) (hw : Spec.totalWidth ws = hdrLen)
    (version : List Nat) (nextField : String) (nexts : List Nat) (fuel : Nat) (predict : Bool) (b : ABuf) (h : Header)
    (hp : ipParse layout minLen hdrLen version nextField nexts fuel predict b = .ok h) : Tiles b h := by
  unfold ipParse at hp
  by_cases hlen : b.length < minLen
  · simp [hlen, bind, Except.bind, throw, throwThe, MonadExceptOf.throw] at hp
  · simp only [hlen, if_false, bind, Except.bind] at hp
    by_cases hv : (b.slice 0 4).content ≠ version
    · simp [hv, throw, throwThe, MonadExceptOf.throw] at hp
    · simp only [hv, if_false] at hp
      have hfix : fbits (parseFixed layout b) = b.bits.take hdrLen := by rw [← hw]; exact fixed_prefix layout ws hl b
      have hle : hdrLen ≤ b.length := by omega
      have base : Tiles b ⟨hdrLen, parseFixed layout b⟩ := ⟨hfix, hle⟩
      cases predict
      · simp only [Bool.false_eq_true, if_false, pure, Except.pure, Except.ok.injEq] at hp; subst hp; exact base
      · simp only [if_true] at hp
        split at hp
        · cases hn : nextFromIp fuel (fieldValue (parseFixed layout b) nextField).value (b.from_ hdrLen) with
          | error e => simp [hn] at hp
          | ok nh =>
            simp only [hn, pure, Except.pure, Except.ok.injEq] at hp; subst hp
            exact tiles_chain b hdrLen _ nh hfix hle (nextFromIp_tiles _ _ _ _ hn)
        · simp only [pure, Except.pure, Except.ok.injEq] at hp; subst hp; exact base

/-- C07 for every header parser in syntactic mode -/
theorem runParser_tiles (fuel : Nat) (p : ParserInst) (hm : p.coapMode = .syntactic) (b : ABuf) (h : Header)
    (hp : runParser fuel p b = .ok h) : Tiles b h := by
  unfold runParser at hp
  split at hp
  · exact ipParse_tiles _ Spec.rfc791 (by decide) _ _ (by decide) (by decide) _ _ _ fuel _ b h hp
  · split at hp
    · exact ipParse_tiles _ Spec.rfc8200 (by decide) _ _ (by decide) (by decide) _ _ _ fuel _ b h hp
    · split at hp
      · exact udpParse_tiles fuel _ b h hp
      · split at hp
        · rw [hm] at hp; exact coapParse_tiles fuel b h hp
        · split at hp
          · exact sctpParse_tiles fuel b h hp
          · simp [throw, throwThe, MonadExceptOf.throw] at hp

theorem packetParse_go_tiles (fuel : Nat) (ps : List ParserInst) (hm : ∀ p ∈ ps, p.coapMode = .syntactic) (b : ABuf) (acc : List Field)
    (fs : List Field) (payload : ABuf) (h : packetParse.go fuel ps b acc = .ok (fs, payload)) :
    fbits fs ++ payload.bits = fbits acc ++ b.bits := by
  induction ps generalizing b acc with
  | nil => simp only [packetParse.go, pure, Except.pure, Except.ok.injEq, Prod.mk.injEq] at h; obtain ⟨h1, h2⟩ := h; subst h1; subst h2; rfl
  | cons p ps ih =>
    unfold packetParse.go at h
    simp only [bind, Except.bind] at h
    cases hr : runParser fuel p b with
    | error e => simp [hr] at h
    | ok hd =>
      simp only [hr] at h
      obtain ⟨t1, t2⟩ := runParser_tiles fuel p (hm p (by simp)) b hd hr
      rw [ih (fun x hx => hm x (List.mem_cons_of_mem _ hx)) _ _ h, fbits_append, t1]
      simp [ABuf.from_, List.append_assoc]

/-- C07 for `PacketParser.parse`: the fields in order followed by the payload are the input buffer -/
theorem packetParse_tiles (fuel : Nat) (ps : List ParserInst) (hm : ∀ p ∈ ps, p.coapMode = .syntactic) (b : ABuf) (p : Packet)
    (h : packetParse fuel ps b = .ok p) : fbits p.fields ++ p.payload.bits = b.bits ∧ p.raw = b := by
  unfold packetParse at h
  simp only [bind, Except.bind] at h
  cases hg : packetParse.go fuel ps b [] with
  | error e => simp [hg] at h
  | ok r =>
    obtain ⟨fs, payload⟩ := r
    simp only [hg, pure, Except.pure, Except.ok.injEq] at h; subst h
    exact ⟨by simpa using packetParse_go_tiles fuel ps hm b [] fs payload hg, rfl⟩

end Schc
