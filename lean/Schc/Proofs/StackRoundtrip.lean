/- C01 on the IPv6 / UDP stack with compute fields: compress then decompress gives the packet back. -/
import Schc.Proofs.StackRestore

namespace Schc
open Bits Compute

theorem assemble_append (r1 r2 : List RuleField) (v1 v2 : List Bits) (h : r1.length = v1.length) :
    assemble (r1 ++ r2) (v1 ++ v2) = assemble r1 v1 ++ assemble r2 v2 := by
  induction r1 generalizing v1 with
  | nil => cases v1 <;> simp_all [assemble]
  | cons rf rfs ih =>
    cases v1 with
    | nil => simp at h
    | cons v vs => simp only [List.cons_append, assemble, ih vs (by simpa using h)]

theorem zeroed_append (p1 p2 : List Field) (r1 r2 : List RuleField) (h : p1.length = r1.length) :
    zeroed (p1 ++ p2) (r1 ++ r2) = zeroed p1 r1 ++ zeroed p2 r2 := by
  induction p1 generalizing r1 with
  | nil => cases r1 <;> simp_all [zeroed]
  | cons pf pfs ih =>
    cases r1 with
    | nil => simp at h
    | cons rf rfs => simp only [List.cons_append, zeroed, ih rfs (by simpa using h)]

theorem zeroed_length (pfs : List Field) (rfs : List RuleField) (h : pfs.length = rfs.length) : (zeroed pfs rfs).length = rfs.length := by
  induction pfs generalizing rfs with
  | nil => cases rfs <;> simp_all [zeroed]
  | cons pf pfs ih =>
    cases rfs with
    | nil => simp at h
    | cons rf rfs => simp [zeroed, ih rfs (by simpa using h)]

theorem computeEntries_append (r1 r2 : List RuleField) (pos : Nat) :
    computeEntries (r1 ++ r2) pos = computeEntries r1 pos ++ computeEntries r2 (pos + r1.length) := by
  induction r1 generalizing pos with
  | nil => simp [computeEntries]
  | cons rf rfs ih =>
    simp only [List.cons_append, computeEntries, ih, List.length_cons]
    have : pos + 1 + rfs.length = pos + (rfs.length + 1) := by omega
    rw [this]
    split <;> simp

/-- without compute descriptors the rebuilt fields spell the packet fields -/
theorem assemble_nocompute_bits (pfs : List Field) (rfs : List RuleField) (h : pfs.length = rfs.length) (hnc : ∀ rf ∈ rfs, rf.cda ≠ .compute) :
    (assemble rfs (zeroed pfs rfs)).flatMap (·.2.bits) = pfs.flatMap (·.value.bits) := by
  induction pfs generalizing rfs with
  | nil => cases rfs <;> simp_all [assemble, zeroed]
  | cons pf pfs ih =>
    cases rfs with
    | nil => simp at h
    | cons rf rfs =>
      have hc := hnc rf (by simp)
      simp only [zeroed, hc, if_false, assemble, List.flatMap_cons]
      rw [ih rfs (by simpa using h) (fun x hx => hnc x (List.mem_cons_of_mem _ hx))]

theorem length12 {α} (l : List α) (h : l.length = 12) :
    ∃ x0 x1 x2 x3 x4 x5 x6 x7 x8 x9 x10 x11, l = [x0, x1, x2, x3, x4, x5, x6, x7, x8, x9, x10, x11] := by
  match l, h with
  | [x0, x1, x2, x3, x4, x5, x6, x7, x8, x9, x10, x11], _ => exact ⟨x0, x1, x2, x3, x4, x5, x6, x7, x8, x9, x10, x11, rfl⟩

/-- the twelve IPv6 / UDP field ids in header order -/
def ids6 : List String := Gen.IPv6F.all ++ Gen.UDPF.all

theorem not_computable_ids6 : ∀ i, i ∈ [0, 1, 2, 4, 5, 6, 7, 8, 9] →
    ∀ id, ids6[i]? = some id → (Gen.computeFunctions.find? (·.1 == id)).isSome = false := by decide +kernel

end Schc

namespace Schc
open Bits Compute

/-- the i-th field value as the decompressor rebuilds it (right-padded) -/
def fv (l : List Field) (i : Nat) : ABuf := ⟨((l[i]?).map (·.value.bits)).getD [], .right⟩

/-- what follows the UDP header in the decompressor's field list: the remaining rebuilt fields and the payload -/
def restOf (restF : List Field) (restR : List RuleField) (payload : ABuf) : Fields :=
  assemble restR (zeroed restF restR) ++ [(Gen.payloadId, ⟨payload.bits, .right⟩)]

theorem fitsC_cons (pf : Field) (pfs : List Field) (rf : RuleField) (rfs : List RuleField) (h : AllFitsC (pf :: pfs) (rf :: rfs)) :
    FieldFitsC pf rf ∧ AllFitsC pfs rfs := h

theorem not_compute_of_id (pf : Field) (rf : RuleField) (hf : FieldFitsC pf rf)
    (hid : (Gen.computeFunctions.find? (·.1 == rf.id)).isSome = false) : rf.cda ≠ .compute := by
  intro hc
  unfold FieldFitsC at hf
  simp only [hc, if_true] at hf
  rw [hid] at hf
  exact absurd hf.2.2 (by simp)

theorem compute_len (pf : Field) (rf : RuleField) (hf : FieldFitsC pf rf) (hc : rf.cda = .compute) : rf.length = pf.value.length := by
  unfold FieldFitsC at hf
  simp only [hc, if_true] at hf
  exact hf.2.1.symm

/-- the shape of the decompressor's state on the IPv6 / UDP stack: the rebuilt field list is a `stack6` with zero
    placeholders exactly at the positions (3, 10, 11) the rule marks as compute, and those are the compute entries -/
theorem ipv6_udp_shape (p : Packet) (r : Rule) (pf12 restF : List Field) (rf12 restR : List RuleField)
    (hp : p.fields = pf12 ++ restF) (hr : r.fields = rf12 ++ restR) (h12p : pf12.length = 12) (h12r : rf12.length = 12)
    (hids : pf12.map (·.id) = ids6)
    (hn : r.nature = .compression) (hdir : ∀ rf ∈ r.fields, Spec.dirApplies p.dir rf.dir = true)
    (happ : Spec.applicable p r = true) (hfit : AllFitsC p.fields r.fields)
    (hncR : ∀ rf ∈ restR, rf.cda ≠ .compute)
    (l3 : (fv pf12 3).bits.length = 16) (l10 : (fv pf12 10).bits.length = 16) (l11 : (fv pf12 11).bits.length = 16) :
    ∃ c3 c10 c11 : Bool,
      assemble r.fields (zeroed p.fields r.fields) ++ [(Gen.payloadId, ⟨p.payload.bits, .right⟩)] =
        stack6 (fv pf12 0) (fv pf12 1) (fv pf12 2) (if c3 then ph 16 else fv pf12 3) (fv pf12 4) (fv pf12 5) (fv pf12 6) (fv pf12 7)
          (fv pf12 8) (fv pf12 9) (if c10 then ph 16 else fv pf12 10) (if c11 then ph 16 else fv pf12 11) (restOf restF restR p.payload) ∧
      computeEntries r.fields 0 =
        (if c3 then [(⟨3, Gen.IPv6F.PAYLOAD_LENGTH⟩ : ComputeEntry)] else []) ++
          ((if c10 then [⟨10, Gen.UDPF.LENGTH⟩] else []) ++ (if c11 then [⟨11, Gen.UDPF.CHECKSUM⟩] else [])) ∧
      restF.length = restR.length ∧ AllFitsC restF restR ∧ Spec.allMatch restF restR = true := by
  obtain ⟨x0, x1, x2, x3, x4, x5, x6, x7, x8, x9, x10, x11, rfl⟩ := length12 pf12 h12p
  obtain ⟨g0, g1, g2, g3, g4, g5, g6, g7, g8, g9, g10, g11, rfl⟩ := length12 rf12 h12r
  simp only [ids6, Gen.IPv6F.all, Gen.UDPF.all, List.map_cons, List.map_nil, List.cons_append, List.nil_append, List.cons.injEq, and_true] at hids
  obtain ⟨i0, i1, i2, i3, i4, i5, i6, i7, i8, i9, i10, i11⟩ := hids
  have happ' := happ
  unfold Spec.applicable at happ'
  rw [hn] at happ'
  have hfilter : r.fields.filter (fun f => Spec.dirApplies p.dir f.dir) = r.fields := by
    rw [List.filter_eq_self]; exact hdir
  simp only [hfilter, Bool.and_eq_true, beq_iff_eq] at happ'
  obtain ⟨hl, hm⟩ := happ'
  rw [hp, hr] at hl hm hfit
  have hlrest : restF.length = restR.length := by simpa using hl
  simp only [List.cons_append, List.nil_append, Spec.allMatch, Bool.and_eq_true] at hm
  obtain ⟨m0, m1, m2, m3, m4, m5, m6, m7, m8, m9, m10, m11, mrest⟩ := hm
  have idof : ∀ (pf : Field) (rf : RuleField), Spec.fieldMatches pf rf = true → pf.id = rf.id := by
    intro pf rf h; unfold Spec.fieldMatches at h; simp only [Bool.and_eq_true, beq_iff_eq] at h; exact h.1
  have j0 := idof _ _ m0; have j1 := idof _ _ m1; have j2 := idof _ _ m2; have j3 := idof _ _ m3
  have j4 := idof _ _ m4; have j5 := idof _ _ m5; have j6 := idof _ _ m6; have j7 := idof _ _ m7
  have j8 := idof _ _ m8; have j9 := idof _ _ m9; have j10 := idof _ _ m10; have j11 := idof _ _ m11
  simp only [List.cons_append, List.nil_append] at hfit
  obtain ⟨f0, hfit⟩ := fitsC_cons _ _ _ _ hfit
  obtain ⟨f1, hfit⟩ := fitsC_cons _ _ _ _ hfit
  obtain ⟨f2, hfit⟩ := fitsC_cons _ _ _ _ hfit
  obtain ⟨f3, hfit⟩ := fitsC_cons _ _ _ _ hfit
  obtain ⟨f4, hfit⟩ := fitsC_cons _ _ _ _ hfit
  obtain ⟨f5, hfit⟩ := fitsC_cons _ _ _ _ hfit
  obtain ⟨f6, hfit⟩ := fitsC_cons _ _ _ _ hfit
  obtain ⟨f7, hfit⟩ := fitsC_cons _ _ _ _ hfit
  obtain ⟨f8, hfit⟩ := fitsC_cons _ _ _ _ hfit
  obtain ⟨f9, hfit⟩ := fitsC_cons _ _ _ _ hfit
  obtain ⟨f10, hfit⟩ := fitsC_cons _ _ _ _ hfit
  obtain ⟨f11, hfit⟩ := fitsC_cons _ _ _ _ hfit
  have n0 : g0.cda ≠ .compute := not_compute_of_id x0 g0 f0 (by rw [← j0, i0]; decide)
  have n1 : g1.cda ≠ .compute := not_compute_of_id x1 g1 f1 (by rw [← j1, i1]; decide)
  have n2 : g2.cda ≠ .compute := not_compute_of_id x2 g2 f2 (by rw [← j2, i2]; decide)
  have n4 : g4.cda ≠ .compute := not_compute_of_id x4 g4 f4 (by rw [← j4, i4]; decide)
  have n5 : g5.cda ≠ .compute := not_compute_of_id x5 g5 f5 (by rw [← j5, i5]; decide)
  have n6 : g6.cda ≠ .compute := not_compute_of_id x6 g6 f6 (by rw [← j6, i6]; decide)
  have n7 : g7.cda ≠ .compute := not_compute_of_id x7 g7 f7 (by rw [← j7, i7]; decide)
  have n8 : g8.cda ≠ .compute := not_compute_of_id x8 g8 f8 (by rw [← j8, i8]; decide)
  have n9 : g9.cda ≠ .compute := not_compute_of_id x9 g9 f9 (by rw [← j9, i9]; decide)
  simp only [fv, List.getElem?_cons_succ, List.getElem?_cons_zero, Option.map_some, Option.getD_some] at l3 l10 l11 ⊢
  refine ⟨decide (g3.cda = .compute), decide (g10.cda = .compute), decide (g11.cda = .compute), ?_, ?_, hlrest, hfit, mrest⟩
  · rw [hp, hr]
    have e3 : g3.cda = .compute → g3.length = 16 := fun hc => by rw [compute_len x3 g3 f3 hc]; exact l3
    have e10 : g10.cda = .compute → g10.length = 16 := fun hc => by rw [compute_len x10 g10 f10 hc]; exact l10
    have e11 : g11.cda = .compute → g11.length = 16 := fun hc => by rw [compute_len x11 g11 f11 hc]; exact l11
    simp only [List.cons_append, List.nil_append, zeroed, assemble, sideOf, n0, n1, n2, n4, n5, n6, n7, n8, n9, if_false, stack6, restOf,
      ← j0, ← j1, ← j2, ← j3, ← j4, ← j5, ← j6, ← j7, ← j8, ← j9, ← j10, ← j11, i0, i1, i2, i3, i4, i5, i6, i7, i8, i9, i10, i11]
    by_cases c3 : g3.cda = .compute <;> by_cases c10 : g10.cda = .compute <;> by_cases c11 : g11.cda = .compute <;>
      simp [c3, c10, c11, ph, e3, e10, e11] <;> exact ⟨rfl, rfl, rfl, rfl, rfl, rfl, rfl, rfl, rfl, rfl, rfl, rfl⟩
  · rw [hr, computeEntries_append, computeEntries_nil restR _ hncR, List.append_nil]
    simp only [computeEntries, n0, n1, n2, n4, n5, n6, n7, n8, n9, if_false, ← j3, ← j10, ← j11, i3, i10, i11]
    have q1 : Gen.IPv6F.PAYLOAD_LENGTH = "IPv6:Payload Length" := rfl
    have q2 : Gen.UDPF.LENGTH = "UDP:Length" := rfl
    have q3 : Gen.UDPF.CHECKSUM = "UDP:Checksum" := rfl
    by_cases c3 : g3.cda = .compute <;> by_cases c10 : g10.cda = .compute <;> by_cases c11 : g11.cda = .compute <;>
      simp [c3, c10, c11, q1, q2, q3]

/-- C01 on the IPv6 / UDP stack: for a packet whose first twelve fields are the IPv6 and UDP header fields and a rule
    that may mark IPv6 payload length, UDP length and UDP checksum as *compute* (any subset), if the packet's length
    fields and checksum are valid (`Valid6`), decompress ∘ compress gives the packet back bit for bit -/
theorem roundtrip_ipv6_udp (p : Packet) (r : Rule) (pf12 restF : List Field) (rf12 restR : List RuleField)
    (hp : p.fields = pf12 ++ restF) (hr : r.fields = rf12 ++ restR) (h12p : pf12.length = 12) (h12r : rf12.length = 12)
    (hids : pf12.map (·.id) = ids6)
    (hn : r.nature = .compression) (hdir : ∀ rf ∈ r.fields, Spec.dirApplies p.dir rf.dir = true)
    (happ : Spec.applicable p r = true) (hfit : AllFitsC p.fields r.fields)
    (hraw : p.raw.bits = p.fields.flatMap (·.value.bits) ++ p.payload.bits)
    (hncR : ∀ rf ∈ restR, rf.cda ≠ .compute)
    (hvalid : Valid6 (fv pf12 3) (fv pf12 6) (fv pf12 7) (fv pf12 8) (fv pf12 9) (fv pf12 10) (fv pf12 11) (restOf restF restR p.payload)) :
    ∃ c, compress p r = .ok c ∧ decompress c r = .ok ⟨p.raw.bits, .right⟩ := by
  obtain ⟨x0, x1, x2, x3, x4, x5, x6, x7, x8, x9, x10, x11, rfl⟩ := length12 pf12 h12p
  obtain ⟨g0, g1, g2, g3, g4, g5, g6, g7, g8, g9, g10, g11, rfl⟩ := length12 rf12 h12r
  -- ids of the packet fields
  simp only [ids6, Gen.IPv6F.all, Gen.UDPF.all, List.map_cons, List.map_nil, List.cons_append, List.nil_append, List.cons.injEq, and_true] at hids
  obtain ⟨i0, i1, i2, i3, i4, i5, i6, i7, i8, i9, i10, i11⟩ := hids
  -- the rule applies: lengths and ids agree
  have happ' := happ
  unfold Spec.applicable at happ'
  rw [hn] at happ'
  have hfilter : r.fields.filter (fun f => Spec.dirApplies p.dir f.dir) = r.fields := by
    rw [List.filter_eq_self]; exact hdir
  simp only [hfilter, Bool.and_eq_true, beq_iff_eq] at happ'
  obtain ⟨hl, hm⟩ := happ'
  rw [hp, hr] at hl hm hfit
  have hlrest : restF.length = restR.length := by simpa using hl
  simp only [List.cons_append, List.nil_append, Spec.allMatch, Spec.fieldMatches, Bool.and_eq_true, beq_iff_eq] at hm
  obtain ⟨⟨j0, _⟩, ⟨j1, _⟩, ⟨j2, _⟩, ⟨j3, _⟩, ⟨j4, _⟩, ⟨j5, _⟩, ⟨j6, _⟩, ⟨j7, _⟩, ⟨j8, _⟩, ⟨j9, _⟩, ⟨j10, _⟩, ⟨j11, _⟩, _⟩ := hm
  -- fits, field by field
  simp only [List.cons_append, List.nil_append] at hfit
  obtain ⟨f0, hfit⟩ := fitsC_cons _ _ _ _ hfit
  obtain ⟨f1, hfit⟩ := fitsC_cons _ _ _ _ hfit
  obtain ⟨f2, hfit⟩ := fitsC_cons _ _ _ _ hfit
  obtain ⟨f3, hfit⟩ := fitsC_cons _ _ _ _ hfit
  obtain ⟨f4, hfit⟩ := fitsC_cons _ _ _ _ hfit
  obtain ⟨f5, hfit⟩ := fitsC_cons _ _ _ _ hfit
  obtain ⟨f6, hfit⟩ := fitsC_cons _ _ _ _ hfit
  obtain ⟨f7, hfit⟩ := fitsC_cons _ _ _ _ hfit
  obtain ⟨f8, hfit⟩ := fitsC_cons _ _ _ _ hfit
  obtain ⟨f9, hfit⟩ := fitsC_cons _ _ _ _ hfit
  obtain ⟨f10, hfit⟩ := fitsC_cons _ _ _ _ hfit
  obtain ⟨f11, hfit⟩ := fitsC_cons _ _ _ _ hfit
  -- only positions 3, 10 and 11 can be compute
  have n0 : g0.cda ≠ .compute := not_compute_of_id x0 g0 f0 (by rw [← j0, i0]; decide)
  have n1 : g1.cda ≠ .compute := not_compute_of_id x1 g1 f1 (by rw [← j1, i1]; decide)
  have n2 : g2.cda ≠ .compute := not_compute_of_id x2 g2 f2 (by rw [← j2, i2]; decide)
  have n4 : g4.cda ≠ .compute := not_compute_of_id x4 g4 f4 (by rw [← j4, i4]; decide)
  have n5 : g5.cda ≠ .compute := not_compute_of_id x5 g5 f5 (by rw [← j5, i5]; decide)
  have n6 : g6.cda ≠ .compute := not_compute_of_id x6 g6 f6 (by rw [← j6, i6]; decide)
  have n7 : g7.cda ≠ .compute := not_compute_of_id x7 g7 f7 (by rw [← j7, i7]; decide)
  have n8 : g8.cda ≠ .compute := not_compute_of_id x8 g8 f8 (by rw [← j8, i8]; decide)
  have n9 : g9.cda ≠ .compute := not_compute_of_id x9 g9 f9 (by rw [← j9, i9]; decide)
  -- validity, on the rebuilt buffers
  simp only [fv, List.getElem?_cons_succ, List.getElem?_cons_zero, Option.map_some, Option.getD_some] at hvalid
  have hv := hvalid
  obtain ⟨hn', l2, l3, hpl, hul, hck⟩ := hvalid
  have hl3' : x3.value.bits.length = 16 := by
    have := congrArg List.length hpl; simpa using this
  -- the decompressor's starting list and its compute entries, in `stack6` form
  have hcur : assemble r.fields (zeroed p.fields r.fields) ++ [(Gen.payloadId, ⟨p.payload.bits, .right⟩)] =
      stack6 ⟨x0.value.bits, .right⟩ ⟨x1.value.bits, .right⟩ ⟨x2.value.bits, .right⟩
        (if g3.cda = .compute then ph 16 else ⟨x3.value.bits, .right⟩) ⟨x4.value.bits, .right⟩ ⟨x5.value.bits, .right⟩
        ⟨x6.value.bits, .right⟩ ⟨x7.value.bits, .right⟩ ⟨x8.value.bits, .right⟩ ⟨x9.value.bits, .right⟩
        (if g10.cda = .compute then ph 16 else ⟨x10.value.bits, .right⟩) (if g11.cda = .compute then ph 16 else ⟨x11.value.bits, .right⟩)
        (restOf restF restR p.payload) := by
    rw [hp, hr]
    have e3 : g3.cda = .compute → g3.length = 16 := fun hc => by rw [compute_len x3 g3 f3 hc]; exact hl3'
    have e10 : g10.cda = .compute → g10.length = 16 := fun hc => by rw [compute_len x10 g10 f10 hc]; exact l2
    have e11 : g11.cda = .compute → g11.length = 16 := fun hc => by rw [compute_len x11 g11 f11 hc]; exact l3
    simp only [List.cons_append, List.nil_append, zeroed, assemble, sideOf, n0, n1, n2, n4, n5, n6, n7, n8, n9, if_false, stack6, restOf,
      ← j0, ← j1, ← j2, ← j3, ← j4, ← j5, ← j6, ← j7, ← j8, ← j9, ← j10, ← j11, i0, i1, i2, i3, i4, i5, i6, i7, i8, i9, i10, i11]
    by_cases c3 : g3.cda = .compute <;> by_cases c10 : g10.cda = .compute <;> by_cases c11 : g11.cda = .compute <;>
      simp [c3, c10, c11, ph, e3, e10, e11] <;> exact ⟨rfl, rfl, rfl, rfl, rfl, rfl, rfl, rfl, rfl, rfl, rfl, rfl⟩
  have hent : computeEntries r.fields 0 =
      (if g3.cda = .compute then [(⟨3, Gen.IPv6F.PAYLOAD_LENGTH⟩ : ComputeEntry)] else []) ++
        ((if g10.cda = .compute then [⟨10, Gen.UDPF.LENGTH⟩] else []) ++ (if g11.cda = .compute then [⟨11, Gen.UDPF.CHECKSUM⟩] else [])) := by
    rw [hr, computeEntries_append, computeEntries_nil restR _ hncR, List.append_nil]
    simp only [computeEntries, n0, n1, n2, n4, n5, n6, n7, n8, n9, if_false, ← j3, ← j10, ← j11, i3, i10, i11]
    have q1 : Gen.IPv6F.PAYLOAD_LENGTH = "IPv6:Payload Length" := rfl
    have q2 : Gen.UDPF.LENGTH = "UDP:Length" := rfl
    have q3 : Gen.UDPF.CHECKSUM = "UDP:Checksum" := rfl
    by_cases c3 : g3.cda = .compute <;> by_cases c10 : g10.cda = .compute <;> by_cases c11 : g11.cda = .compute <;>
      simp [c3, c10, c11, q1, q2, q3]
  obtain ⟨res, hrun, hbits⟩ := restore6 ⟨x0.value.bits, .right⟩ ⟨x1.value.bits, .right⟩ ⟨x2.value.bits, .right⟩ ⟨x3.value.bits, .right⟩
    ⟨x4.value.bits, .right⟩ ⟨x5.value.bits, .right⟩ ⟨x6.value.bits, .right⟩ ⟨x7.value.bits, .right⟩ ⟨x8.value.bits, .right⟩
    ⟨x9.value.bits, .right⟩ ⟨x10.value.bits, .right⟩ ⟨x11.value.bits, .right⟩ (restOf restF restR p.payload) hv
    (decide (g3.cda = .compute)) (decide (g10.cda = .compute)) (decide (g11.cda = .compute))
  simp only [decide_eq_true_eq] at hrun
  refine roundtrip_compute p r hn hdir happ (by rw [hp, hr]; exact ⟨f0, f1, f2, f3, f4, f5, f6, f7, f8, f9, f10, f11, hfit⟩) hraw res ?_ ?_
  · rw [hcur, hent]; exact hrun
  · rw [hbits, stack6_bits, hp]
    simp only [restOf, List.flatMap_append, List.flatMap_cons, List.flatMap_nil, List.append_nil, List.cons_append, List.nil_append]
    rw [assemble_nocompute_bits restF restR hlrest hncR]
    simp [List.append_assoc]

end Schc
