/- (id, value) pairs of a field list: what `decompress` and `unparse` pass around -/
import Schc.Py.Parsers

namespace Schc

def pairs (fs : List Field) : List (String × ABuf) := fs.map (fun f => (f.id, f.value))

@[simp] theorem pairs_append (a b : List Field) : pairs (a ++ b) = pairs a ++ pairs b := by simp [pairs]
@[simp] theorem pairs_nil : pairs [] = [] := rfl

end Schc
