/- C16 part 1: Buffer operations that are not explicitly in-place leave their operands unchanged
   (post-states of the byte-level model; the `inplace` flag of every internal call site is the one the
   translator read from buffer.py on this run). -/
import Schc.Py.Buffer

namespace Schc
namespace Buf

theorem shift_pure (b : Buf) (s : Int) (r b' : Buf) (h : b.shift s false = .ok (r, b')) : b' = b := by
  unfold shift at h
  by_cases hs : s = 0
  · simp only [hs, if_true, Bool.false_eq_true, if_false, bind, Except.bind] at h
    cases hc : b.copy with
    | error e => simp [hc] at h
    | ok c => simp only [hc, pure, Except.pure, Except.ok.injEq, Prod.mk.injEq] at h; exact h.2.symm
  · simp only [hs, if_false, Bool.false_eq_true, bind, Except.bind] at h
    cases hc : b.copy with
    | error e => simp [hc] at h
    | ok c =>
      simp only [hc] at h
      split at h
      · cases hl : shiftLeftRaw c s.natAbs with
        | error e => simp [hl] at h
        | ok x => simp only [hl, pure, Except.pure, Except.ok.injEq, Prod.mk.injEq] at h; exact h.2.symm
      · cases hl : shiftRightRaw c s.natAbs with
        | error e => simp [hl] at h
        | ok x => simp only [hl, pure, Except.pure, Except.ok.injEq, Prod.mk.injEq] at h; exact h.2.symm

theorem pad_pure (b : Buf) (p : Pad) (r b' : Buf) (h : b.pad p false = .ok (r, b')) : b' = b := by
  unfold pad at h
  by_cases hp : p = b.padding
  · simp only [hp, if_true, Bool.false_eq_true, if_false, bind, Except.bind] at h
    cases hc : new b.content b.length b.padding with
    | error e => simp [hc] at h
    | ok c => simp only [hc, pure, Except.pure, Except.ok.injEq, Prod.mk.injEq] at h; exact h.2.symm
  · simp only [hp, if_false, Bool.false_eq_true, bind, Except.bind] at h
    cases hc : b.copy with
    | error e => simp [hc] at h
    | ok c =>
      simp only [hc] at h
      split at h
      · simp at h
      · rename_i x hx
        simp only [pure, Except.pure, Except.ok.injEq, Prod.mk.injEq] at h; exact h.2.symm

end Buf
end Schc

namespace Schc
namespace Buf

theorem value_pure (b : Buf) (v : Nat) (b' : Buf) (h : b.value = .ok (v, b')) : b' = b := by
  unfold value at h
  have hf : Gen.valuePadInplace = false := rfl
  cases hp : b.padding <;> simp only [hp, bind, Except.bind, pure, Except.pure, hf] at h
  · split at h <;> (try split at h) <;> simp_all
    all_goals (first | exact h.2.symm | (cases h; rfl) | skip)
  · cases hpad : pad b .left false with
    | error e => simp [hpad] at h
    | ok x =>
      obtain ⟨r, s⟩ := x
      have := pad_pure b .left r s hpad
      subst this
      simp only [hpad] at h
      split at h
      · cases hi : idx r.content 0 with
        | error e => simp [hi] at h
        | ok c0 => simp only [hi, Except.ok.injEq, Prod.mk.injEq] at h; exact h.2.symm
      · simp only [Except.ok.injEq, Prod.mk.injEq] at h; exact h.2.symm

theorem bitwise_pure (f : Nat → Nat → Nat) (a b r b' : Buf) (h : bitwise f false a b = .ok (r, b')) : b' = b := by
  unfold bitwise at h
  by_cases hl : a.length ≠ b.length
  · rw [if_pos hl] at h; simp [bind, Except.bind, throw, throwThe, MonadExceptOf.throw] at h
  · rw [if_neg hl] at h
    simp only [bind, Except.bind, pure, Except.pure] at h
    by_cases hp : b.padding ≠ a.padding
    · rw [if_pos hp] at h
      cases hpad : pad b a.padding false with
      | error e => simp [hpad] at h
      | ok x =>
        obtain ⟨an, s⟩ := x
        have := pad_pure b a.padding an s hpad
        subst this
        simp only [hpad] at h
        cases hn : new (List.zipWith f a.content an.content) a.length a.padding with
        | error e => simp [hn] at h
        | ok z => simp only [hn, Except.ok.injEq, Prod.mk.injEq] at h; exact h.2.symm
    · rw [if_neg hp] at h
      cases hn : new (List.zipWith f a.content b.content) a.length a.padding with
      | error e => simp [hn] at h
      | ok z => simp only [hn, Except.ok.injEq, Prod.mk.injEq] at h; exact h.2.symm

theorem band_pure (a b r b' : Buf) (h : band a b = .ok (r, b')) : b' = b := bitwise_pure _ a b r b' h
theorem bor_pure (a b r b' : Buf) (h : bor a b = .ok (r, b')) : b' = b := bitwise_pure _ a b r b' h
theorem bxor_pure (a b r b' : Buf) (h : bxor a b = .ok (r, b')) : b' = b := bitwise_pure _ a b r b' h

theorem eq_pure (a b : Buf) (v : Bool) (b' : Buf) (h : Buf.eq a b = .ok (v, b')) : b' = b := by
  unfold Buf.eq at h
  have hf : Gen.eqPadInplace = false := rfl
  by_cases hl : a.length ≠ b.length
  · rw [if_pos hl] at h; simp only [pure, Except.pure, Except.ok.injEq, Prod.mk.injEq] at h; exact h.2.symm
  · rw [if_neg hl] at h
    simp only [bind, Except.bind, pure, Except.pure, hf] at h
    cases hpad : pad b a.padding false with
    | error e => simp [hpad] at h
    | ok x =>
      obtain ⟨an, s⟩ := x
      have := pad_pure b a.padding an s hpad
      subst this
      simp only [hpad, Except.ok.injEq, Prod.mk.injEq] at h; exact h.2.symm

theorem hashKey_pure (b : Buf) (k : List Nat) (b' : Buf) (h : b.hashKey = .ok (k, b')) : b' = b := by
  unfold hashKey at h
  have hf : Gen.hashPadInplace = false := rfl
  simp only [bind, Except.bind, pure, Except.pure, hf] at h
  cases hpad : pad b .left false with
  | error e => simp [hpad] at h
  | ok x =>
    obtain ⟨l, s⟩ := x
    have := pad_pure b .left l s hpad
    subst this
    simp only [hpad, Except.ok.injEq, Prod.mk.injEq] at h; exact h.2.symm

end Buf
end Schc

namespace Schc
namespace Buf

theorem bind_ok {α β} (m : Py α) (f : α → Py β) (y : β) (h : (m >>= f) = .ok y) : ∃ x, m = .ok x ∧ f x = .ok y := by
  cases m with
  | error e => simp [bind, Except.bind] at h
  | ok x => exact ⟨x, rfl, h⟩

set_option maxHeartbeats 400000 in
theorem add_pure (a b r a' b' : Buf) (h : add a b = .ok (r, a', b')) : a' = a ∧ b' = b := by
  unfold add at h
  have f1 : Gen.addPadInplace1 = false := rfl
  have f2 : Gen.addPadInplace2 = false := rfl
  simp only [f1, f2] at h
  split at h
  · obtain ⟨x, _, hx⟩ := bind_ok _ _ _ h
    simp only [pure, Except.pure, Except.ok.injEq, Prod.mk.injEq] at hx; exact ⟨hx.2.1.symm, hx.2.2.symm⟩
  · split at h
    · split at h
      · obtain ⟨x, _, hx⟩ := bind_ok _ _ _ h
        simp only [pure, Except.pure, Except.ok.injEq, Prod.mk.injEq] at hx; exact ⟨hx.2.1.symm, hx.2.2.symm⟩
      · obtain ⟨⟨rl, r'⟩, hp, h⟩ := bind_ok _ _ _ h
        have := pad_pure b .left rl r' hp; subst this
        obtain ⟨_, _, h⟩ := bind_ok _ _ _ h
        obtain ⟨_, _, h⟩ := bind_ok _ _ _ h
        obtain ⟨_, _, h⟩ := bind_ok _ _ _ h
        obtain ⟨_, _, h⟩ := bind_ok _ _ _ h
        simp only [pure, Except.pure, Except.ok.injEq, Prod.mk.injEq] at h; exact ⟨h.2.1.symm, h.2.2.symm⟩
    · split at h
      · split at h
        · obtain ⟨x, _, hx⟩ := bind_ok _ _ _ h
          simp only [pure, Except.pure, Except.ok.injEq, Prod.mk.injEq] at hx; exact ⟨hx.2.1.symm, hx.2.2.symm⟩
        · obtain ⟨⟨rl, r'⟩, hp, h⟩ := bind_ok _ _ _ h
          have := pad_pure b .right rl r' hp; subst this
          obtain ⟨_, _, h⟩ := bind_ok _ _ _ h
          simp only [pure, Except.pure, Except.ok.injEq, Prod.mk.injEq] at h; exact ⟨h.2.1.symm, h.2.2.symm⟩
      · split at h
        · split at h
          · obtain ⟨_, _, h⟩ := bind_ok _ _ _ h
            obtain ⟨_, _, h⟩ := bind_ok _ _ _ h
            obtain ⟨_, _, h⟩ := bind_ok _ _ _ h
            obtain ⟨_, _, h⟩ := bind_ok _ _ _ h
            simp only [pure, Except.pure, Except.ok.injEq, Prod.mk.injEq] at h; exact ⟨h.2.1.symm, h.2.2.symm⟩
          · split at h
            · obtain ⟨_, _, h⟩ := bind_ok _ _ _ h
              obtain ⟨_, _, h⟩ := bind_ok _ _ _ h
              obtain ⟨_, _, h⟩ := bind_ok _ _ _ h
              obtain ⟨_, _, h⟩ := bind_ok _ _ _ h
              obtain ⟨_, _, h⟩ := bind_ok _ _ _ h
              simp only [pure, Except.pure, Except.ok.injEq, Prod.mk.injEq] at h; exact ⟨h.2.1.symm, h.2.2.symm⟩
            · obtain ⟨_, _, h⟩ := bind_ok _ _ _ h
              obtain ⟨_, _, h⟩ := bind_ok _ _ _ h
              obtain ⟨_, _, h⟩ := bind_ok _ _ _ h
              obtain ⟨_, _, h⟩ := bind_ok _ _ _ h
              obtain ⟨_, _, h⟩ := bind_ok _ _ _ h
              obtain ⟨_, _, h⟩ := bind_ok _ _ _ h
              simp only [pure, Except.pure, Except.ok.injEq, Prod.mk.injEq] at h; exact ⟨h.2.1.symm, h.2.2.symm⟩
        · obtain ⟨_, _, h⟩ := bind_ok _ _ _ h
          obtain ⟨_, _, h⟩ := bind_ok _ _ _ h
          obtain ⟨_, _, h⟩ := bind_ok _ _ _ h
          obtain ⟨_, _, h⟩ := bind_ok _ _ _ h
          obtain ⟨_, _, h⟩ := bind_ok _ _ _ h
          obtain ⟨_, _, h⟩ := bind_ok _ _ _ h
          simp only [pure, Except.pure, Except.ok.injEq, Prod.mk.injEq] at h; exact ⟨h.2.1.symm, h.2.2.symm⟩

end Buf
end Schc
