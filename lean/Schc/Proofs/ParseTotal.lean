/- C14 for UDP / IPv4 / IPv6 (with next-protocol prediction), `runParser` and `PacketParser.parse`. -/
import Schc.Proofs.Sctp

namespace Schc

abbrev OkOrParserError {α} (r : Py α) : Prop := (∃ x, r = .ok x) ∨ r = .error .parserError

/-- every next-protocol number the UDP parser chains on has a registered parser that the model knows -/
theorem udp_next_registered : ∀ p ∈ Gen.udpNextProtocols, parserName p = some "CoAPParser" ∨ parserName p = some "SCTPParser" := by
  decide

theorem ip_next_registered : ∀ p ∈ Gen.ipv4NextProtocols ++ Gen.ipv6NextProtocols,
    parserName p = some "UDPParser" ∨ parserName p = some "SCTPParser" ∨ parserName p = some "CoAPParser" := by
  decide

theorem nextFromUdp_total (fuel id : Nat) (b : ABuf) (hf : b.length < fuel) (hid : id ∈ Gen.udpNextProtocols) :
    OkOrParserError (nextFromUdp fuel id b) := by
  unfold nextFromUdp
  rcases udp_next_registered id hid with h | h <;> rw [h]
  · exact coapParse_total .syntactic fuel b hf
  · exact sctpParse_total fuel b hf

theorem udpParse_total (fuel : Nat) (predict : Bool) (b : ABuf) (hf : b.length < fuel) : OkOrParserError (udpParse fuel predict b) := by
  unfold udpParse
  by_cases hlen : b.length < Gen.udpMinLength
  · right; simp [hlen, bind, Except.bind, throw, throwThe, MonadExceptOf.throw]
  · simp only [hlen, if_false, bind, Except.bind]
    cases predict
    · left; exact ⟨_, rfl⟩
    · simp only [if_true]
      split
      · rename_i hin
        have hin' : (fieldValue (parseFixed Gen.udpLayout b) Gen.UDPF.DESTINATION_PORT).value ∈ Gen.udpNextProtocols := by
          simpa [List.contains_iff_mem] using hin
        have hl : (b.from_ Gen.udpHeaderLength).length < fuel := by rw [from_length]; omega
        rcases nextFromUdp_total fuel _ _ hl hin' with ⟨r, hr⟩ | hr
        · left; rw [hr]; exact ⟨_, rfl⟩
        · right; rw [hr]
      · left; exact ⟨_, rfl⟩

theorem nextFromIp_total (fuel id : Nat) (b : ABuf) (hf : b.length < fuel) (hid : id ∈ Gen.ipv4NextProtocols ++ Gen.ipv6NextProtocols) :
    OkOrParserError (nextFromIp fuel id b) := by
  unfold nextFromIp
  rcases ip_next_registered id hid with h | h | h <;> rw [h]
  · exact udpParse_total fuel true b hf
  · exact sctpParse_total fuel b hf
  · exact coapParse_total .syntactic fuel b hf

theorem ipParse_total (layout : Layout) (minLen hdrLen : Nat) (version : List Nat) (nextField : String) (nexts : List Nat)
    (hn : ∀ p ∈ nexts, p ∈ Gen.ipv4NextProtocols ++ Gen.ipv6NextProtocols)
    (fuel : Nat) (predict : Bool) (b : ABuf) (hf : b.length < fuel) :
    OkOrParserError (ipParse layout minLen hdrLen version nextField nexts fuel predict b) := by
  unfold ipParse
  by_cases hlen : b.length < minLen
  · right; simp [hlen, bind, Except.bind, throw, throwThe, MonadExceptOf.throw]
  · simp only [hlen, if_false, bind, Except.bind]
    by_cases hv : (b.slice 0 4).content ≠ version
    · right; simp [hv, throw, throwThe, MonadExceptOf.throw]
    · simp only [hv, if_false]
      cases predict
      · left; exact ⟨_, rfl⟩
      · simp only [if_true]
        split
        · rename_i hin
          have hin' := hn _ (by simpa [List.contains_iff_mem] using hin)
          have hl : (b.from_ hdrLen).length < fuel := by rw [from_length]; omega
          rcases nextFromIp_total fuel _ _ hl hin' with ⟨r, hr⟩ | hr
          · left; rw [hr]; exact ⟨_, rfl⟩
          · right; rw [hr]
        · left; exact ⟨_, rfl⟩

def KnownParser (p : ParserInst) : Prop :=
  p.cls = "IPv4Parser" ∨ p.cls = "IPv6Parser" ∨ p.cls = "UDPParser" ∨ p.cls = "CoAPParser" ∨ p.cls = "SCTPParser"

theorem runParser_total (fuel : Nat) (p : ParserInst) (b : ABuf) (hk : KnownParser p) (hf : b.length < fuel) :
    OkOrParserError (runParser fuel p b) := by
  unfold runParser
  rcases hk with h | h | h | h | h <;> rw [h] <;> simp only [String.reduceBEq, if_true, if_false, Bool.false_eq_true]
  · exact ipParse_total _ _ _ _ _ _ (fun p hp => List.mem_append_left _ hp) fuel _ b hf
  · exact ipParse_total _ _ _ _ _ _ (fun p hp => List.mem_append_right _ hp) fuel _ b hf
  · exact udpParse_total fuel _ b hf
  · exact coapParse_total _ fuel b hf
  · exact sctpParse_total fuel b hf

theorem packetParse_go_total (fuel : Nat) (ps : List ParserInst) (b : ABuf) (acc : List Field)
    (hk : ∀ p ∈ ps, KnownParser p) (hf : b.length < fuel) : OkOrParserError (packetParse.go fuel ps b acc) := by
  induction ps generalizing b acc with
  | nil => left; exact ⟨_, rfl⟩
  | cons p ps ih =>
    unfold packetParse.go
    simp only [bind, Except.bind]
    rcases runParser_total fuel p b (hk p (by simp)) hf with ⟨h, hr⟩ | hr
    · rw [hr]; simp only
      exact ih _ _ (fun x hx => hk x (List.mem_cons_of_mem _ hx)) (by rw [from_length]; omega)
    · right; rw [hr]

/-- C14: `PacketParser.parse` on any buffer gives a packet descriptor or the parser error -/
theorem packetParse_total (ps : List ParserInst) (b : ABuf) (hk : ∀ p ∈ ps, KnownParser p) :
    OkOrParserError (packetParse (fuelFor b) ps b) := by
  unfold packetParse
  simp only [bind, Except.bind]
  rcases packetParse_go_total (fuelFor b) ps b [] hk (by simp [fuelFor]) with ⟨r, hr⟩ | hr
  · left; rw [hr]; exact ⟨_, rfl⟩
  · right; rw [hr]

def knownB (p : ParserInst) : Bool :=
  p.cls == "IPv4Parser" || p.cls == "IPv6Parser" || p.cls == "UDPParser" || p.cls == "CoAPParser" || p.cls == "SCTPParser"

theorem knownB_iff (p : ParserInst) (h : knownB p = true) : KnownParser p := by
  unfold knownB at h; unfold KnownParser
  simp only [Bool.or_eq_true, beq_iff_eq] at h
  rcases h with (((h | h) | h) | h) | h
  · exact Or.inl h
  · exact Or.inr (Or.inl h)
  · exact Or.inr (Or.inr (Or.inl h))
  · exact Or.inr (Or.inr (Or.inr (Or.inl h)))
  · exact Or.inr (Or.inr (Or.inr (Or.inr h)))

def factoryKnownB (cfg : String) : Bool :=
  match factory cfg with
  | .ok ps => ps.all knownB
  | .error _ => false

def supportedConfigs : List String := ["IPv6-UDP-CoAP", "IPv4-UDP-CoAP", "IPv4", "IPv6", "UDP", "CoAP", "SCTP"]

theorem factory_known_table : supportedConfigs.all factoryKnownB = true := by decide

/-- the parser lists `factory` builds for the supported configurations contain only known parsers -/
theorem factory_known (cfg : String) (hcfg : cfg ∈ supportedConfigs) : ∃ ps, factory cfg = .ok ps ∧ ∀ p ∈ ps, KnownParser p := by
  have := List.all_eq_true.mp factory_known_table cfg hcfg
  unfold factoryKnownB at this
  cases hf : factory cfg with
  | error e => rw [hf] at this; cases this
  | ok ps =>
    rw [hf] at this
    exact ⟨ps, rfl, fun p hp => knownB_iff p (List.all_eq_true.mp this p hp)⟩

end Schc
