/- `chunks(n)` tiles the buffer: the pieces, in order, spell the bits again (with padding: followed by the zeros that
   fill the last piece). -/
import Schc.Proofs.BufChunks

namespace Schc
open Bits

theorem chunksAux_flatten (n : Nat) (fuel : Nat) (b : Bits) (h : b.length ≤ fuel) :
    (Bits.chunksAux n false fuel b).flatten = b := by
  induction fuel generalizing b with
  | zero =>
    have : b = [] := List.eq_nil_of_length_eq_zero (by omega)
    subst this; simp [Bits.chunksAux]
  | succ k ih =>
    unfold Bits.chunksAux
    by_cases hle : b.length ≤ n
    · simp [hle]
    · simp only [hle, if_false, List.flatten_cons]
      by_cases hn : n = 0
      · subst hn
        simp only [List.take_zero, List.drop_zero, List.nil_append]
        -- a zero chunk size makes no progress: the fuel runs out and the remainder is returned whole
        clear ih h
        induction k with
        | zero => simp [Bits.chunksAux]
        | succ j ihj => unfold Bits.chunksAux; simp only [hle, if_false, List.take_zero, List.drop_zero, List.flatten_cons, List.nil_append]; exact ihj
      · rw [ih (b.drop n) (by simp only [List.length_drop]; omega), List.take_append_drop]

/-- without padding the pieces concatenate to the buffer, for every chunk size -/
theorem chunks_flatten (n : Nat) (b : Bits) : (Bits.chunks n false b).flatten = b :=
  chunksAux_flatten n b.length b (Nat.le_refl _)

theorem chunksAux_lengths (n : Nat) (hn : 0 < n) (fuel : Nat) (b : Bits) (h : b.length ≤ fuel) :
    ∀ c ∈ Bits.chunksAux n true fuel b, c.length = n := by
  induction fuel generalizing b with
  | zero =>
    have : b = [] := List.eq_nil_of_length_eq_zero (by omega)
    subst this; simp [Bits.chunksAux, zeros_length]
  | succ k ih =>
    unfold Bits.chunksAux
    by_cases hle : b.length ≤ n
    · simp only [hle, if_true, List.mem_singleton]
      intro c hc; subst hc; simp [zeros_length]; omega
    · simp only [hle, if_false, List.mem_cons]
      intro c hc
      rcases hc with rfl | hc
      · simp; omega
      · exact ih (b.drop n) (by simp only [List.length_drop]; omega) c hc

/-- with padding every piece has exactly `n` bits and the pieces spell the bits followed by zeros -/
theorem chunks_padded (n : Nat) (hn : 0 < n) (b : Bits) :
    (∀ c ∈ Bits.chunks n true b, c.length = n) ∧ ∃ k, (Bits.chunks n true b).flatten = b ++ Bits.zeros k := by
  refine ⟨chunksAux_lengths n hn b.length b (Nat.le_refl _), ?_⟩
  have : ∀ fuel (b : Bits), b.length ≤ fuel → ∃ k, (Bits.chunksAux n true fuel b).flatten = b ++ Bits.zeros k := by
    intro fuel
    induction fuel with
    | zero => intro b h; exact ⟨n - b.length, by simp [Bits.chunksAux]⟩
    | succ j ih =>
      intro b h
      unfold Bits.chunksAux
      by_cases hle : b.length ≤ n
      · exact ⟨n - b.length, by simp [hle]⟩
      · obtain ⟨k, hk⟩ := ih (b.drop n) (by simp only [List.length_drop]; omega)
        exact ⟨k, by simp only [hle, if_false, List.flatten_cons, hk, ← List.append_assoc, List.take_append_drop]⟩
  exact this b.length b (Nat.le_refl _)

end Schc
