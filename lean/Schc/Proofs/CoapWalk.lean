/- C08: the CoAP option walk cuts RFC 7252 §3.1 options at their field boundaries. -/
import Schc.Proofs.CoapSemantic
import Schc.Spec.Coap

namespace Schc
open Bits Spec

theorem idx_zero_cons' (x : Nat) (xs : List Nat) : idx (x :: xs) 0 = .ok x := rfl

theorem nib_lt (x : Nat) : nib x < 16 := by unfold nib; split <;> (try split) <;> omega

theorem ext_length (x : Nat) : (ext x).length = if x < 13 then 0 else if x < 269 then 8 else 16 := by
  unfold ext; split <;> (try split) <;> simp

theorem slice_head (A R : Bits) : Bits.slice (A ++ R) 0 A.length = A := by
  simp [Bits.slice]

theorem slice_mid (P A R : Bits) (n m : Nat) (hn : n = P.length) (hm : m = P.length + A.length) : Bits.slice (P ++ (A ++ R)) n m = A := by
  subst hn hm
  simp [Bits.slice]

theorem toNat_ofNat' (n v : Nat) (h : v < 2 ^ n) : Bits.toNat (Bits.ofNat n v) = v := toNat_ofNat n v h

theorem nib_cases (x : Nat) : (x < 13 ∧ nib x = x) ∨ (13 ≤ x ∧ x < 269 ∧ nib x = 13) ∨ (269 ≤ x ∧ nib x = 14) := by
  unfold nib
  by_cases c1 : x < 13
  · left; simp [c1]
  · by_cases c2 : x < 269
    · right; left; simp [c1, c2]; omega
    · right; right; simp [c1, c2]; omega

theorem ext_width (x : Nat) : (if decide (nib x = 13) then 8 else if decide (nib x = 14) then 16 else 0) = (ext x).length := by
  rw [ext_length]
  rcases nib_cases x with ⟨h1, h2⟩ | ⟨h1, h2, h3⟩ | ⟨h1, h2⟩
  · have a : ¬ (x = 13) := by omega
    have b : ¬ (x = 14) := by omega
    simp [h1, h2, a, b]
  · have a : ¬ (x < 13) := by omega
    simp [h3, a, h2]
  · have a : ¬ (x < 13) := by omega
    have b : ¬ (x < 269) := by omega
    simp [h2, a, b]

theorem ext_flag (x : Nat) : (decide (nib x = 13) || decide (nib x = 14)) = decide (13 ≤ x) := by
  rcases nib_cases x with ⟨h1, h2⟩ | ⟨h1, h2, h3⟩ | ⟨h1, h2⟩
  · have a : ¬ (x = 13) := by omega
    have b : ¬ (x = 14) := by omega
    have c : ¬ (13 ≤ x) := by omega
    simp [h2, a, b, c]
  · simp [h3, h1]
  · have c : 13 ≤ x := by omega
    simp [h2, c]

/-- composed length: nibble plus what the extension adds (the parser's `option_length + option_length_extended`) -/
theorem ext_compose (x : Nat) (hx : x < 269 + 65536) :
    nib x + (if decide (nib x = 13) then Bits.toNat (ext x) else if decide (nib x = 14) then Bits.toNat (ext x) + 255 else 0) = x := by
  rcases nib_cases x with ⟨h1, h2⟩ | ⟨h1, h2, h3⟩ | ⟨h1, h2⟩
  · have a : ¬ (x = 13) := by omega
    have b : ¬ (x = 14) := by omega
    simp [h2, a, b]
  · have a : ¬ (x < 13) := by omega
    simp only [h3, decide_true, if_true, ext, a, if_false, h2]
    rw [toNat_ofNat 8 _ (by omega)]; omega
  · have a : ¬ (x < 13) := by omega
    have b : ¬ (x < 269) := by omega
    simp only [h2, show ¬ ((14 : Nat) = 13) by decide, decide_false, Bool.false_eq_true, if_false, decide_true, if_true, ext, a, b]
    rw [toNat_ofNat 16 _ (by omega)]; omega

/-- the header the parser cuts from an RFC-encoded option followed by anything -/
theorem header_of_encoded (o : CoapOption) (hw : WfOption o) (rest : Bits) :
    let h := optionHeader ⟨wireOption o ++ rest, .left⟩
    h.delta = ⟨Bits.ofNat 4 (nib o.delta), .left⟩ ∧ h.len = ⟨Bits.ofNat 4 (nib o.len), .left⟩ ∧
    (h.d13 || h.d14) = decide (13 ≤ o.delta) ∧ (h.l13 || h.l14) = decide (13 ≤ o.len) ∧
    h.deltaExt = ⟨ext o.delta, .left⟩ ∧ h.lenExt = ⟨ext o.len, .left⟩ ∧
    h.vlen = o.value.length ∧ h.value = ⟨o.value, .left⟩ ∧ h.off = (wireOption o).length := by
  intro h
  obtain ⟨w1, w2, w3⟩ := hw
  have hbits : wireOption o ++ rest =
      Bits.ofNat 4 (nib o.delta) ++ (Bits.ofNat 4 (nib o.len) ++ (ext o.delta ++ (ext o.len ++ (o.value ++ rest)))) := by
    simp [wireOption, List.append_assoc]
  -- the two nibbles
  have hdelta : h.delta = ⟨Bits.ofNat 4 (nib o.delta), .left⟩ := by
    show ABuf.slice _ 0 4 = _
    simp only [ABuf.slice, hbits]
    congr 1
    all_goals first
      | rfl
      | (have := slice_head (Bits.ofNat 4 (nib o.delta)) (Bits.ofNat 4 (nib o.len) ++ (ext o.delta ++ (ext o.len ++ (o.value ++ rest))))
         simpa using this)
  have hlen : h.len = ⟨Bits.ofNat 4 (nib o.len), .left⟩ := by
    show ABuf.slice _ 4 8 = _
    simp only [ABuf.slice, hbits]
    congr 1
    all_goals first
      | rfl
      | exact slice_mid _ _ _ 4 8 (by simp) (by simp)
  have hdv : h.delta.value = nib o.delta := by rw [hdelta]; exact toNat_ofNat 4 _ (nib_lt _)
  have hlv : h.len.value = nib o.len := by rw [hlen]; exact toNat_ofNat 4 _ (nib_lt _)
  have hd13 : h.d13 = decide (nib o.delta = 13) := by
    have := flag_of_value h.delta (by rw [hdelta]) (by rw [hdelta]; simp) 13
    rw [hdv] at this; exact this
  have hd14 : h.d14 = decide (nib o.delta = 14) := by
    have := flag_of_value h.delta (by rw [hdelta]) (by rw [hdelta]; simp) 14
    rw [hdv] at this; exact this
  have hl13 : h.l13 = decide (nib o.len = 13) := by
    have := flag_of_value h.len (by rw [hlen]) (by rw [hlen]; simp) 13
    rw [hlv] at this; exact this
  have hl14 : h.l14 = decide (nib o.len = 14) := by
    have := flag_of_value h.len (by rw [hlen]) (by rw [hlen]; simp) 14
    rw [hlv] at this; exact this
  have hdw : h.dw = (ext o.delta).length := by
    show (if h.d13 then 8 else if h.d14 then 16 else 0) = _
    rw [hd13, hd14]; exact ext_width _
  have hlw : h.lw = (ext o.len).length := by
    show (if h.l13 then 8 else if h.l14 then 16 else 0) = _
    rw [hl13, hl14]; exact ext_width _
  have hde : h.deltaExt = ⟨ext o.delta, .left⟩ := by
    show ABuf.slice _ 8 (8 + h.dw) = _
    simp only [ABuf.slice, hbits]
    congr 1
    rw [← List.append_assoc (Bits.ofNat 4 (nib o.delta))]
    exact slice_mid _ _ _ _ _ (by simp) (by simp [hdw] <;> omega)
  have hle : h.lenExt = ⟨ext o.len, .left⟩ := by
    show ABuf.slice _ (8 + h.dw) (8 + h.dw + h.lw) = _
    simp only [ABuf.slice, hbits]
    congr 1
    rw [← List.append_assoc (Bits.ofNat 4 (nib o.delta)), ← List.append_assoc (_ ++ _) (ext o.delta)]
    exact slice_mid _ _ _ _ _ (by simp [hdw] <;> omega) (by simp [hdw, hlw] <;> omega)
  have hvlen : h.vlen = o.value.length := by
    show (h.len.value + (if h.l13 then h.lenExt.value else if h.l14 then h.lenExt.value + 255 else 0)) * 8 = _
    have hev : h.lenExt.value = Bits.toNat (ext o.len) := by rw [hle]; rfl
    rw [hlv, hl13, hl14, hev, ext_compose _ w3]
    unfold CoapOption.len; omega
  have hval : h.value = ⟨o.value, .left⟩ := by
    show (if h.vlen > 0 then ABuf.slice _ (8 + h.dw + h.lw) (8 + h.dw + h.lw + h.vlen) else ABuf.empty .left) = _
    by_cases hv : h.vlen > 0
    · simp only [hv, if_true, ABuf.slice, hbits]
      congr 1
      rw [← List.append_assoc (Bits.ofNat 4 (nib o.delta)), ← List.append_assoc (_ ++ _) (ext o.delta), ← List.append_assoc (_ ++ _) (ext o.len)]
      exact slice_mid _ _ _ _ _ (by simp [hdw, hlw] <;> omega) (by simp [hdw, hlw, hvlen] <;> omega)
    · simp only [hv, if_false, ABuf.empty]
      have : o.value = [] := List.eq_nil_of_length_eq_zero (by omega)
      rw [this]
  refine ⟨hdelta, hlen, ?_, ?_, hde, hle, hvlen, hval, ?_⟩
  · rw [hd13, hd14]; exact ext_flag _
  · rw [hl13, hl14]; exact ext_flag _
  · show 8 + h.dw + h.lw + h.vlen = _
    rw [hdw, hlw, hvlen]
    simp [wireOption] <;> omega

end Schc

namespace Schc
open Bits Spec

/-- the RFC's fields of one option as (id, LEFT-padded Buffer) pairs -/
def optPairs (o : CoapOption) : List (String × ABuf) := (optionFields o).map fun p => (p.1, ⟨p.2, .left⟩)

theorem synPairs_of_encoded (o : CoapOption) (hw : WfOption o) (rest : Bits) :
    synPairs (optionHeader ⟨wireOption o ++ rest, .left⟩) = optPairs o := by
  obtain ⟨h1, h2, h3, h4, h5, h6, h7, h8, _⟩ := header_of_encoded o hw rest
  unfold synPairs optPairs optionFields
  simp only [h1, h2, h3, h4, h5, h6, h7, h8, List.map_append, List.map_cons, List.map_nil, decide_eq_true_eq]
  have e1 : Gen.CoAPF.OPTION_DELTA = "CoAP:Option Delta" := rfl
  have e2 : Gen.CoAPF.OPTION_LENGTH = "CoAP:Option Length" := rfl
  have e3 : Gen.CoAPF.OPTION_DELTA_EXTENDED = "CoAP:Option Delta Extended" := rfl
  have e4 : Gen.CoAPF.OPTION_LENGTH_EXTENDED = "CoAP:Option Length Extended" := rfl
  have e5 : Gen.CoAPF.OPTION_VALUE = "CoAP:Option Value" := rfl
  rw [e1, e2, e3, e4, e5]
  have hv : (o.value.length > 0) ↔ o.value ≠ [] := by
    constructor
    · intro h e; rw [e] at h; simp at h
    · intro h; exact List.length_pos_iff.mpr h
  congr 1
  · congr 1
    · congr 1
      by_cases c : 13 ≤ o.delta <;> simp [c]
    · by_cases c : 13 ≤ o.len <;> simp [c]
  · by_cases c : o.value = []
    · simp [c]
    · have : o.value.length > 0 := hv.mpr c
      simp [c, this]

theorem optionStep_some (buffer : ABuf) (st : OptState)
    (hg : st.cursor < buffer.length ∧ (buffer.slice st.cursor (st.cursor + 8)).content ≠ Gen.coap_PAYLOAD_MARKER_VALUE)
    (hfit : (optionHeader (buffer.from_ st.cursor)).off ≤ (buffer.from_ st.cursor).length) :
    ∃ st', optionStep buffer .syntactic st = .ok (some st') ∧ st'.cursor = st.cursor + (optionHeader (buffer.from_ st.cursor)).off ∧
      st'.lastDeltaExt = (if (optionHeader (buffer.from_ st.cursor)).d13 || (optionHeader (buffer.from_ st.cursor)).d14
        then some (optionHeader (buffer.from_ st.cursor)).deltaExt else st.lastDeltaExt) := by
  unfold optionStep
  have h1 : ¬ ¬ (st.cursor < buffer.length ∧ (buffer.slice st.cursor (st.cursor + 8)).content ≠ Gen.coap_PAYLOAD_MARKER_VALUE) := not_not.mpr hg
  have h2 : ¬ ((optionHeader (buffer.from_ st.cursor)).off > (buffer.from_ st.cursor).length) := by omega
  rw [if_neg h1]
  simp only [bind, Except.bind]
  rw [if_neg h2]
  exact ⟨_, rfl, rfl, rfl⟩

theorem optionStep_none (buffer : ABuf) (mode : CoapMode) (st : OptState)
    (hg : ¬ (st.cursor < buffer.length ∧ (buffer.slice st.cursor (st.cursor + 8)).content ≠ Gen.coap_PAYLOAD_MARKER_VALUE)) :
    optionStep buffer mode st = .ok none := by
  unfold optionStep
  rw [if_pos hg]; rfl

theorem marker_content : (⟨List.replicate 8 true, .left⟩ : ABuf).content = Gen.coap_PAYLOAD_MARKER_VALUE := by decide

theorem ofNat4_not_ones (v : Nat) (hv : v < 15) : Bits.ofNat 4 v ≠ List.replicate 4 true := by
  intro h
  have := congrArg Bits.toNat h
  rw [toNat_ofNat 4 v (by omega)] at this
  have e : Bits.toNat (List.replicate 4 true) = 15 := by decide
  omega

theorem nib_lt15 (x : Nat) : nib x < 15 := by
  rcases nib_cases x with ⟨h1, h2⟩ | ⟨_, _, h3⟩ | ⟨_, h2⟩ <;> omega

/-- the walk over RFC-encoded options, from any cursor: it consumes exactly the options and emits their fields -/
theorem walk_options (os : List CoapOption) (hwf : ∀ o ∈ os, WfOption o) (pre tail : Bits)
    (htail : tail = [] ∨ ∃ p, tail = List.replicate 8 true ++ p) (fuel : Nat) (hf : os.length < fuel) (st : OptState)
    (hc : st.cursor = pre.length) :
    ∃ r, optionLoop ⟨pre ++ (wireOptions os ++ tail), .left⟩ .syntactic fuel st = .ok r ∧
      r.cursor = pre.length + (wireOptions os).length ∧ pairs r.fields = pairs st.fields ++ os.flatMap optPairs := by
  induction os generalizing pre fuel st with
  | nil =>
    cases fuel with
    | zero => omega
    | succ fuel =>
      unfold optionLoop
      simp only [wireOptions, List.flatMap_nil, List.nil_append, List.length_nil, Nat.add_zero, List.append_nil]
      have hg : ¬ (st.cursor < (⟨pre ++ tail, .left⟩ : ABuf).length ∧
          ((⟨pre ++ tail, .left⟩ : ABuf).slice st.cursor (st.cursor + 8)).content ≠ Gen.coap_PAYLOAD_MARKER_VALUE) := by
        rcases htail with h | ⟨p, h⟩
        · subst h; simp [ABuf.length, hc]
        · subst h
          intro ⟨_, h2⟩
          apply h2
          have : (⟨pre ++ (List.replicate 8 true ++ p), .left⟩ : ABuf).slice st.cursor (st.cursor + 8) = ⟨List.replicate 8 true, .left⟩ := by
            simp only [ABuf.slice]
            congr 1
            exact slice_mid pre _ p _ _ hc (by simp [hc])
          rw [this]; exact marker_content
      simp only [optionStep_none _ _ _ hg, bind, Except.bind, pure, Except.pure]
      exact ⟨st, rfl, hc, by simp⟩
  | cons o os ih =>
    cases fuel with
    | zero => omega
    | succ fuel =>
      have hwo := hwf o (by simp)
      unfold optionLoop
      generalize hbuf : (⟨pre ++ (wireOptions (o :: os) ++ tail), .left⟩ : ABuf) = buffer
      have hbits : buffer.bits = pre ++ (wireOption o ++ (wireOptions os ++ tail)) := by
        rw [← hbuf]; simp [wireOptions, List.append_assoc]
      have hfrom : buffer.from_ st.cursor = ⟨wireOption o ++ (wireOptions os ++ tail), .left⟩ := by
        simp only [ABuf.from_, hbits, hc]
        rw [← hbuf]; simp
      have hoff := (header_of_encoded o hwo (wireOptions os ++ tail)).2.2.2.2.2.2.2.2
      have hwl : 8 ≤ (wireOption o).length := by simp [wireOption]; omega
      have hg : st.cursor < buffer.length ∧ (buffer.slice st.cursor (st.cursor + 8)).content ≠ Gen.coap_PAYLOAD_MARKER_VALUE := by
        constructor
        · simp only [ABuf.length, hbits, List.length_append, hc]; omega
        · intro hcon
          have hsl : (buffer.slice st.cursor (st.cursor + 8)).bits = Bits.ofNat 4 (nib o.delta) ++ Bits.ofNat 4 (nib o.len) := by
            simp only [ABuf.slice, hbits]
            have e : wireOption o ++ (wireOptions os ++ tail) = (Bits.ofNat 4 (nib o.delta) ++ Bits.ofNat 4 (nib o.len)) ++
                (ext o.delta ++ (ext o.len ++ (o.value ++ (wireOptions os ++ tail)))) := by simp [wireOption, List.append_assoc]
            rw [e]
            exact slice_mid pre _ _ _ _ hc (by simp [hc])
          have h255 := content_eq_255 _ (by rw [hsl]; simp) hcon
          rw [hsl] at h255
          have h4 := congrArg (List.take 4) h255
          simp only [List.take_left' (ofNat_length 4 _), List.take_replicate] at h4
          exact ofNat4_not_ones _ (nib_lt15 o.delta) h4
      have hfit : (optionHeader (buffer.from_ st.cursor)).off ≤ (buffer.from_ st.cursor).length := by
        rw [hfrom, hoff]; simp [ABuf.length]
      obtain ⟨st', hs1, hs2, _⟩ := optionStep_some buffer st hg hfit
      have hsp := step_syn_pairs buffer st st' hs1
      rw [hfrom, synPairs_of_encoded o hwo] at hsp
      rw [hfrom, hoff] at hs2
      simp only [hs1, bind, Except.bind]
      have hbuf2 : buffer = ⟨(pre ++ wireOption o) ++ (wireOptions os ++ tail), .left⟩ := by
        rw [← hbuf]; simp [wireOptions, List.append_assoc]
      rw [hbuf2]
      obtain ⟨r, hr1, hr2, hr3⟩ := ih (fun x hx => hwf x (List.mem_cons_of_mem _ hx)) (pre ++ wireOption o) fuel (by simp at hf; omega) st'
        (by rw [hs2, hc]; simp)
      refine ⟨r, hr1, ?_, ?_⟩
      · rw [hr2]; simp [wireOptions]; omega
      · rw [hr3, hsp]; simp

end Schc

namespace Schc
open Bits Spec

/-- `_parse_options` on RFC-encoded options followed by nothing or by the payload marker and a payload -/
theorem parseOptions_encoded (os : List CoapOption) (hwf : ∀ o ∈ os, WfOption o) (tail : Bits)
    (htail : tail = [] ∨ ∃ p, tail = List.replicate 8 true ++ p) (fuel : Nat) (hf : os.length < fuel) :
    ∃ fs, parseOptions ⟨wireOptions os ++ tail, .left⟩ .syntactic fuel = .ok (fs, (wireOptions os).length + (if tail = [] then 0 else 8)) ∧
      pairs fs = os.flatMap optPairs ++ (if tail = [] then [] else [(Gen.CoAPF.PAYLOAD_MARKER, ABuf.ofNat 8 0xff)]) := by
  obtain ⟨r, h1, h2, h3⟩ := walk_options os hwf [] tail htail fuel hf {} rfl
  simp only [List.nil_append, List.length_nil, Nat.zero_add, pairs_nil] at h1 h2 h3
  unfold parseOptions
  simp only [h1, bind, Except.bind, h2, ABuf.length, List.length_append]
  by_cases ht : tail = []
  · subst ht
    simp only [List.length_nil, Nat.add_zero, Nat.lt_irrefl, if_false, if_true, pure, Except.pure, List.append_nil]
    exact ⟨_, rfl, h3⟩
  · have hl : 0 < tail.length := List.length_pos_iff.mpr ht
    have : (wireOptions os).length < (wireOptions os).length + tail.length := by omega
    simp only [this, if_true, ht, if_false, pure, Except.pure]
    exact ⟨_, rfl, by rw [pairs_append, h3]; rfl⟩

/-- a whole RFC 7252 message: 32 fixed bits whose TKL nibble announces the token, the token, options, and nothing
    or marker + payload — the parser returns the fixed fields, the token (if any), every option's fields in wire
    order and the marker, and reports exactly the header length -/
theorem coapParse_encoded (hdr token : Bits) (os : List CoapOption) (tail : Bits) (hh : hdr.length = 32)
    (htk : Bits.toNat ((hdr.drop 4).take 4) * 8 = token.length) (hwf : ∀ o ∈ os, WfOption o)
    (htail : tail = [] ∨ ∃ p, tail = List.replicate 8 true ++ p) (fuel : Nat) (hf : os.length < fuel) :
    let b : ABuf := ⟨hdr ++ (token ++ (wireOptions os ++ tail)), .left⟩
    ∃ h, coapParse .syntactic fuel b = .ok h ∧
      h.length = 32 + token.length + (wireOptions os).length + (if tail = [] then 0 else 8) ∧
      pairs h.fields = pairs (parseFixed Gen.coapFixedLayout b) ++ (if token = [] then [] else [(Gen.CoAPF.TOKEN, ⟨token, .left⟩)])
        ++ os.flatMap optPairs ++ (if tail = [] then [] else [(Gen.CoAPF.PAYLOAD_MARKER, ABuf.ofNat 8 0xff)]) := by
  intro b
  unfold coapParse
  have hmin : ¬ (b.length < Gen.coapMinLength) := by
    simp [b, ABuf.length, hh, Gen.coapMinLength]
  simp only [hmin, if_false, bind, Except.bind, pure, Except.pure]
  -- the token length nibble
  have htkl : fieldValue (parseFixed Gen.coapFixedLayout b) Gen.CoAPF.TOKEN_LENGTH = b.slice 4 8 := by
    simp only [parseFixed, fieldValue, Gen.coapFixedLayout, List.map_cons, List.map_nil]
    rfl
  have hsl : (b.slice 4 8).bits = (hdr.drop 4).take 4 := by
    simp only [b, ABuf.slice, Bits.slice]
    rw [List.drop_append_of_le_length (by omega), List.take_append_of_le_length (by simp; omega)]
  have hc4 := content_left4 (b.slice 4 8) rfl (by rw [hsl]; simp; omega)
  have hval : (b.slice 4 8).value = Bits.toNat ((hdr.drop 4).take 4) := by simp only [ABuf.value, hsl]
  rw [htkl, hc4, idx_zero_cons']
  simp only [hval]
  generalize htkv : Bits.toNat ((hdr.drop 4).take 4) = tkl at *
  have htoken : b.slice 32 (32 + tkl * 8) = ⟨token, .left⟩ := by
    simp only [b, ABuf.slice]
    congr 1
    exact slice_mid hdr token _ _ _ hh.symm (by omega)
  have hob : b.from_ (32 + tkl * 8) = ⟨wireOptions os ++ tail, .left⟩ := by
    simp only [b, ABuf.from_]
    congr 1
    rw [← List.append_assoc, List.drop_left' (by simp; omega)]
  rw [htoken, hob]
  obtain ⟨fs, p1, p2⟩ := parseOptions_encoded os hwf tail htail fuel hf
  by_cases hol : (⟨wireOptions os ++ tail, .left⟩ : ABuf).length > 0
  · simp only [hol, if_true, p1, asParserError]
    refine ⟨_, rfl, ?_, ?_⟩
    · simp only [ABuf.length]; omega
    · simp only [pairs_append, p2]
      by_cases ht : tkl > 0
      · have : token ≠ [] := by intro e; rw [e] at htk; simp at htk; omega
        simp [ht, this, pairs, List.append_assoc]
      · have : token = [] := List.eq_nil_of_length_eq_zero (by omega)
        simp [ht, this, List.append_assoc]
  · have hl0 : (wireOptions os).length + tail.length = 0 := by simp only [ABuf.length, List.length_append] at hol; omega
    have hw0 : wireOptions os = [] := List.eq_nil_of_length_eq_zero (by omega)
    have ht0 : tail = [] := List.eq_nil_of_length_eq_zero (by omega)
    simp only [hol, if_false]
    refine ⟨_, rfl, ?_, ?_⟩
    · simp [ABuf.length, hw0, ht0]
    · rw [hw0, ht0] at p1
      -- no option bits: the option list contributes nothing
      have hnil : os.flatMap optPairs = [] := by
        cases os with
        | nil => rfl
        | cons o os' =>
          have : 8 ≤ (wireOptions (o :: os')).length := by simp [wireOptions, wireOption]; omega
          rw [hw0] at this; simp at this
      simp only [hnil, ht0, if_true, List.append_nil, pairs_append]
      by_cases ht : tkl > 0
      · have : token ≠ [] := by intro e; rw [e] at htk; simp at htk; omega
        simp [ht, this, pairs]
      · have : token = [] := List.eq_nil_of_length_eq_zero (by omega)
        simp [ht, this]

end Schc

namespace Schc

/-! ### occurrence positions: the k-th field with a given id carries position k -/

/-- number (id, value) pairs by occurrence: position = 1 + number of earlier fields with the same id -/
def numberFrom (seen : List String) : List (String × ABuf) → List Field
  | [] => []
  | (id, v) :: rest => ⟨id, v, seen.count id + 1⟩ :: numberFrom (seen ++ [id]) rest

theorem numberFrom_append (seen : List String) (a b : List (String × ABuf)) :
    numberFrom seen (a ++ b) = numberFrom seen a ++ numberFrom (seen ++ a.map (·.1)) b := by
  induction a generalizing seen with
  | nil => simp [numberFrom]
  | cons p ps ih =>
    obtain ⟨id, v⟩ := p
    simp only [List.cons_append, numberFrom, ih, List.map_cons, List.append_assoc, List.nil_append]

def posOf (ps : List (String × Nat)) (k : String) : Nat := ((ps.find? (·.1 == k)).map (·.2)).getD 0

theorem bump_snd (ps : List (String × Nat)) (k : String) : (bump ps k).2 = posOf ps k + 1 := by
  unfold bump posOf
  cases h : ps.find? (·.1 == k) with
  | none => rfl
  | some e => rfl

theorem posOf_bump_same (ps : List (String × Nat)) (k : String) : posOf (bump ps k).1 k = posOf ps k + 1 := by
  unfold bump posOf
  cases h : ps.find? (·.1 == k) with
  | none =>
    simp only [List.find?_append, h, Option.none_or, List.find?_cons, beq_self_eq_true, Option.map_some, Option.getD_some,
      Option.map_none, Option.getD_none]
  | some e =>
    obtain ⟨k0, n⟩ := e
    simp only [Option.map_some, Option.getD_some]
    rw [List.find?_map]
    have hf : ((fun x : String × Nat => x.1 == k) ∘ fun e : String × Nat => if e.1 == k then (e.1, n + 1) else e) = (fun x => x.1 == k) := by
      funext e; simp only [Function.comp]; split <;> simp_all
    rw [hf, h]
    have hk := List.find?_some h
    simp only [beq_iff_eq] at hk
    simp [hk]

theorem posOf_bump_other (ps : List (String × Nat)) (k k' : String) (hne : k' ≠ k) : posOf (bump ps k).1 k' = posOf ps k' := by
  unfold bump posOf
  cases h : ps.find? (·.1 == k) with
  | none =>
    have : ((k == k') = false) := by simp; exact fun e => hne e.symm
    simp only [List.find?_append, List.find?_cons, this, List.find?_nil, Option.or_none]
  | some e =>
    obtain ⟨k0, n⟩ := e
    simp only
    rw [List.find?_map]
    have hf : ((fun x : String × Nat => x.1 == k') ∘ fun e : String × Nat => if e.1 == k then (e.1, n + 1) else e) = (fun x => x.1 == k') := by
      funext e; simp only [Function.comp]; split <;> simp_all
    rw [hf]
    cases h2 : ps.find? (·.1 == k') with
    | none => rfl
    | some e2 =>
      have hk := List.find?_some h2
      simp only [beq_iff_eq] at hk
      have : ¬ (e2.1 = k) := by rw [hk]; exact hne
      simp [this]

theorem posOf_bumpIf_same (c : Bool) (ps : List (String × Nat)) (k : String) :
    posOf (bumpIf c ps k).1 k = posOf ps k + (if c then 1 else 0) ∧ (c = true → (bumpIf c ps k).2 = posOf ps k + 1) := by
  unfold bumpIf
  cases c
  · simp
  · simp [posOf_bump_same, bump_snd]

theorem posOf_bumpIf_other (c : Bool) (ps : List (String × Nat)) (k k' : String) (hne : k' ≠ k) : posOf (bumpIf c ps k).1 k' = posOf ps k' := by
  unfold bumpIf
  cases c
  · rfl
  · exact posOf_bump_other ps k k' hne

end Schc

namespace Schc

/-- the five option field ids are pairwise distinct -/
theorem ne_OPTION_DELTA_OPTION_LENGTH : Gen.CoAPF.OPTION_DELTA ≠ Gen.CoAPF.OPTION_LENGTH := by decide
theorem ne_OPTION_DELTA_OPTION_DELTA_EXTENDED : Gen.CoAPF.OPTION_DELTA ≠ Gen.CoAPF.OPTION_DELTA_EXTENDED := by decide
theorem ne_OPTION_DELTA_OPTION_LENGTH_EXTENDED : Gen.CoAPF.OPTION_DELTA ≠ Gen.CoAPF.OPTION_LENGTH_EXTENDED := by decide
theorem ne_OPTION_DELTA_OPTION_VALUE : Gen.CoAPF.OPTION_DELTA ≠ Gen.CoAPF.OPTION_VALUE := by decide
theorem ne_OPTION_LENGTH_OPTION_DELTA : Gen.CoAPF.OPTION_LENGTH ≠ Gen.CoAPF.OPTION_DELTA := by decide
theorem ne_OPTION_LENGTH_OPTION_DELTA_EXTENDED : Gen.CoAPF.OPTION_LENGTH ≠ Gen.CoAPF.OPTION_DELTA_EXTENDED := by decide
theorem ne_OPTION_LENGTH_OPTION_LENGTH_EXTENDED : Gen.CoAPF.OPTION_LENGTH ≠ Gen.CoAPF.OPTION_LENGTH_EXTENDED := by decide
theorem ne_OPTION_LENGTH_OPTION_VALUE : Gen.CoAPF.OPTION_LENGTH ≠ Gen.CoAPF.OPTION_VALUE := by decide
theorem ne_OPTION_DELTA_EXTENDED_OPTION_DELTA : Gen.CoAPF.OPTION_DELTA_EXTENDED ≠ Gen.CoAPF.OPTION_DELTA := by decide
theorem ne_OPTION_DELTA_EXTENDED_OPTION_LENGTH : Gen.CoAPF.OPTION_DELTA_EXTENDED ≠ Gen.CoAPF.OPTION_LENGTH := by decide
theorem ne_OPTION_DELTA_EXTENDED_OPTION_LENGTH_EXTENDED : Gen.CoAPF.OPTION_DELTA_EXTENDED ≠ Gen.CoAPF.OPTION_LENGTH_EXTENDED := by decide
theorem ne_OPTION_DELTA_EXTENDED_OPTION_VALUE : Gen.CoAPF.OPTION_DELTA_EXTENDED ≠ Gen.CoAPF.OPTION_VALUE := by decide
theorem ne_OPTION_LENGTH_EXTENDED_OPTION_DELTA : Gen.CoAPF.OPTION_LENGTH_EXTENDED ≠ Gen.CoAPF.OPTION_DELTA := by decide
theorem ne_OPTION_LENGTH_EXTENDED_OPTION_LENGTH : Gen.CoAPF.OPTION_LENGTH_EXTENDED ≠ Gen.CoAPF.OPTION_LENGTH := by decide
theorem ne_OPTION_LENGTH_EXTENDED_OPTION_DELTA_EXTENDED : Gen.CoAPF.OPTION_LENGTH_EXTENDED ≠ Gen.CoAPF.OPTION_DELTA_EXTENDED := by decide
theorem ne_OPTION_LENGTH_EXTENDED_OPTION_VALUE : Gen.CoAPF.OPTION_LENGTH_EXTENDED ≠ Gen.CoAPF.OPTION_VALUE := by decide
theorem ne_OPTION_VALUE_OPTION_DELTA : Gen.CoAPF.OPTION_VALUE ≠ Gen.CoAPF.OPTION_DELTA := by decide
theorem ne_OPTION_VALUE_OPTION_LENGTH : Gen.CoAPF.OPTION_VALUE ≠ Gen.CoAPF.OPTION_LENGTH := by decide
theorem ne_OPTION_VALUE_OPTION_DELTA_EXTENDED : Gen.CoAPF.OPTION_VALUE ≠ Gen.CoAPF.OPTION_DELTA_EXTENDED := by decide
theorem ne_OPTION_VALUE_OPTION_LENGTH_EXTENDED : Gen.CoAPF.OPTION_VALUE ≠ Gen.CoAPF.OPTION_LENGTH_EXTENDED := by decide

/-- invariant of the syntactic walk: fields numbered by occurrence, counters = occurrences so far -/
def WalkInv (st : OptState) : Prop :=
  st.fields = numberFrom [] (pairs st.fields) ∧ ∀ k, posOf st.positions k = (st.fields.map (·.id)).count k

theorem pairs_ids (fs : List Field) : (pairs fs).map (·.1) = fs.map (·.id) := by simp [pairs]

theorem step_inv (buffer : ABuf) (st st' : OptState) (hinv : WalkInv st) (h : optionStep buffer .syntactic st = .ok (some st')) : WalkInv st' := by
  obtain ⟨i1, i2⟩ := hinv
  unfold optionStep at h
  split at h
  · simp [pure, Except.pure] at h
  · simp only [bind, Except.bind] at h
    split at h
    · simp [throw, throwThe, MonadExceptOf.throw] at h
    · simp only [pure, Except.pure, Except.ok.injEq, Option.some.injEq] at h
      subst h
      generalize optionHeader (buffer.from_ st.cursor) = hd
      generalize hdf : (hd.d13 || hd.d14) = dflag
      generalize hlf : (hd.l13 || hd.l14) = lflag
      generalize hvf : decide (hd.vlen > 0) = vflag
      have hvf' : (hd.vlen > 0) ↔ vflag = true := by rw [← hvf]; simp
      simp only [hvf']
      -- the counters, one bump at a time
      have c1 := posOf_bumpIf_same dflag st.positions Gen.CoAPF.OPTION_DELTA_EXTENDED
      have o1 := fun k h => posOf_bumpIf_other dflag st.positions Gen.CoAPF.OPTION_DELTA_EXTENDED k h
      generalize bumpIf dflag st.positions Gen.CoAPF.OPTION_DELTA_EXTENDED = b1 at *
      have c2 := posOf_bumpIf_same lflag b1.1 Gen.CoAPF.OPTION_LENGTH_EXTENDED
      have o2 := fun k h => posOf_bumpIf_other lflag b1.1 Gen.CoAPF.OPTION_LENGTH_EXTENDED k h
      generalize bumpIf lflag b1.1 Gen.CoAPF.OPTION_LENGTH_EXTENDED = b2 at *
      have c3 := posOf_bumpIf_same vflag b2.1 Gen.CoAPF.OPTION_VALUE
      have o3 := fun k h => posOf_bumpIf_other vflag b2.1 Gen.CoAPF.OPTION_VALUE k h
      generalize bumpIf vflag b2.1 Gen.CoAPF.OPTION_VALUE = b3 at *
      have c4 := posOf_bump_same b3.1 Gen.CoAPF.OPTION_DELTA
      have s4 := bump_snd b3.1 Gen.CoAPF.OPTION_DELTA
      have o4 := fun k h => posOf_bump_other b3.1 Gen.CoAPF.OPTION_DELTA k h
      generalize bump b3.1 Gen.CoAPF.OPTION_DELTA = b4 at *
      have c5 := posOf_bump_same b4.1 Gen.CoAPF.OPTION_LENGTH
      have s5 := bump_snd b4.1 Gen.CoAPF.OPTION_LENGTH
      have o5 := fun k h => posOf_bump_other b4.1 Gen.CoAPF.OPTION_LENGTH k h
      generalize bump b4.1 Gen.CoAPF.OPTION_LENGTH = b5 at *
      -- positions of the emitted fields in terms of the counters before the step
      have pD : b4.2 = (st.fields.map (·.id)).count Gen.CoAPF.OPTION_DELTA + 1 := by
        rw [s4, o3 _ ne_OPTION_DELTA_OPTION_VALUE, o2 _ ne_OPTION_DELTA_OPTION_LENGTH_EXTENDED, o1 _ ne_OPTION_DELTA_OPTION_DELTA_EXTENDED, i2]
      have pL : b5.2 = (st.fields.map (·.id)).count Gen.CoAPF.OPTION_LENGTH + 1 := by
        rw [s5, o4 _ ne_OPTION_LENGTH_OPTION_DELTA, o3 _ ne_OPTION_LENGTH_OPTION_VALUE, o2 _ ne_OPTION_LENGTH_OPTION_LENGTH_EXTENDED,
          o1 _ ne_OPTION_LENGTH_OPTION_DELTA_EXTENDED, i2]
      have pDE : dflag = true → b1.2 = (st.fields.map (·.id)).count Gen.CoAPF.OPTION_DELTA_EXTENDED + 1 := by
        intro hd; rw [c1.2 hd, i2]
      have pLE : lflag = true → b2.2 = (st.fields.map (·.id)).count Gen.CoAPF.OPTION_LENGTH_EXTENDED + 1 := by
        intro hl; rw [c2.2 hl, o1 _ ne_OPTION_LENGTH_EXTENDED_OPTION_DELTA_EXTENDED, i2]
      have pV : vflag = true → b3.2 = (st.fields.map (·.id)).count Gen.CoAPF.OPTION_VALUE + 1 := by
        intro hv; rw [c3.2 hv, o2 _ ne_OPTION_VALUE_OPTION_LENGTH_EXTENDED, o1 _ ne_OPTION_VALUE_OPTION_DELTA_EXTENDED, i2]
      constructor
      · -- numbering
        show st.fields ++ _ = numberFrom [] (pairs (st.fields ++ _))
        rw [pairs_append, numberFrom_append, ← i1, List.nil_append, pairs_ids]
        congr 1
        cases dflag <;> cases lflag <;> cases vflag <;>
          simp [pairs, numberFrom, pD, pL, pDE, pLE, pV, List.count_append, List.count_cons,
            ne_OPTION_DELTA_OPTION_LENGTH, ne_OPTION_DELTA_OPTION_DELTA_EXTENDED, ne_OPTION_DELTA_OPTION_LENGTH_EXTENDED, ne_OPTION_DELTA_OPTION_VALUE,
            ne_OPTION_LENGTH_OPTION_DELTA, ne_OPTION_LENGTH_OPTION_DELTA_EXTENDED, ne_OPTION_LENGTH_OPTION_LENGTH_EXTENDED, ne_OPTION_LENGTH_OPTION_VALUE,
            ne_OPTION_DELTA_EXTENDED_OPTION_DELTA, ne_OPTION_DELTA_EXTENDED_OPTION_LENGTH, ne_OPTION_DELTA_EXTENDED_OPTION_LENGTH_EXTENDED, ne_OPTION_DELTA_EXTENDED_OPTION_VALUE,
            ne_OPTION_LENGTH_EXTENDED_OPTION_DELTA, ne_OPTION_LENGTH_EXTENDED_OPTION_LENGTH, ne_OPTION_LENGTH_EXTENDED_OPTION_DELTA_EXTENDED, ne_OPTION_LENGTH_EXTENDED_OPTION_VALUE,
            ne_OPTION_VALUE_OPTION_DELTA, ne_OPTION_VALUE_OPTION_LENGTH, ne_OPTION_VALUE_OPTION_DELTA_EXTENDED, ne_OPTION_VALUE_OPTION_LENGTH_EXTENDED]
      · -- counters
        intro k
        show posOf b5.1 k = ((st.fields ++ _).map (·.id)).count k
        simp only [List.map_append, List.count_append]
        by_cases k5 : k = Gen.CoAPF.OPTION_LENGTH
        · subst k5
          rw [c5, o4 _ ne_OPTION_LENGTH_OPTION_DELTA, o3 _ ne_OPTION_LENGTH_OPTION_VALUE, o2 _ ne_OPTION_LENGTH_OPTION_LENGTH_EXTENDED,
            o1 _ ne_OPTION_LENGTH_OPTION_DELTA_EXTENDED, i2]
          cases dflag <;> cases lflag <;> cases vflag <;>
            simp [List.count_cons, ne_OPTION_DELTA_OPTION_LENGTH, ne_OPTION_DELTA_EXTENDED_OPTION_LENGTH, ne_OPTION_LENGTH_EXTENDED_OPTION_LENGTH, ne_OPTION_VALUE_OPTION_LENGTH]
        · rw [o5 _ k5]
          by_cases k4 : k = Gen.CoAPF.OPTION_DELTA
          · subst k4
            rw [c4, o3 _ ne_OPTION_DELTA_OPTION_VALUE, o2 _ ne_OPTION_DELTA_OPTION_LENGTH_EXTENDED, o1 _ ne_OPTION_DELTA_OPTION_DELTA_EXTENDED, i2]
            cases dflag <;> cases lflag <;> cases vflag <;>
              simp [List.count_cons, ne_OPTION_LENGTH_OPTION_DELTA, ne_OPTION_DELTA_EXTENDED_OPTION_DELTA, ne_OPTION_LENGTH_EXTENDED_OPTION_DELTA, ne_OPTION_VALUE_OPTION_DELTA]
          · rw [o4 _ k4]
            by_cases k3 : k = Gen.CoAPF.OPTION_VALUE
            · subst k3
              rw [c3.1, o2 _ ne_OPTION_VALUE_OPTION_LENGTH_EXTENDED, o1 _ ne_OPTION_VALUE_OPTION_DELTA_EXTENDED, i2]
              cases dflag <;> cases lflag <;> cases vflag <;>
                simp [List.count_cons, ne_OPTION_DELTA_OPTION_VALUE, ne_OPTION_LENGTH_OPTION_VALUE, ne_OPTION_DELTA_EXTENDED_OPTION_VALUE, ne_OPTION_LENGTH_EXTENDED_OPTION_VALUE]
            · rw [o3 _ k3]
              by_cases k2 : k = Gen.CoAPF.OPTION_LENGTH_EXTENDED
              · subst k2
                rw [c2.1, o1 _ ne_OPTION_LENGTH_EXTENDED_OPTION_DELTA_EXTENDED, i2]
                cases dflag <;> cases lflag <;> cases vflag <;>
                  simp [List.count_cons, ne_OPTION_DELTA_OPTION_LENGTH_EXTENDED, ne_OPTION_LENGTH_OPTION_LENGTH_EXTENDED, ne_OPTION_DELTA_EXTENDED_OPTION_LENGTH_EXTENDED, ne_OPTION_VALUE_OPTION_LENGTH_EXTENDED]
              · rw [o2 _ k2]
                by_cases k1 : k = Gen.CoAPF.OPTION_DELTA_EXTENDED
                · subst k1
                  rw [c1.1, i2]
                  cases dflag <;> cases lflag <;> cases vflag <;>
                    simp [List.count_cons, ne_OPTION_DELTA_OPTION_DELTA_EXTENDED, ne_OPTION_LENGTH_OPTION_DELTA_EXTENDED, ne_OPTION_LENGTH_EXTENDED_OPTION_DELTA_EXTENDED, ne_OPTION_VALUE_OPTION_DELTA_EXTENDED]
                · rw [o1 _ k1, i2]
                  have e1 : ¬ (Gen.CoAPF.OPTION_DELTA = k) := fun e => k4 e.symm
                  have e2 : ¬ (Gen.CoAPF.OPTION_LENGTH = k) := fun e => k5 e.symm
                  have e3 : ¬ (Gen.CoAPF.OPTION_DELTA_EXTENDED = k) := fun e => k1 e.symm
                  have e4 : ¬ (Gen.CoAPF.OPTION_LENGTH_EXTENDED = k) := fun e => k2 e.symm
                  have e5 : ¬ (Gen.CoAPF.OPTION_VALUE = k) := fun e => k3 e.symm
                  cases dflag <;> cases lflag <;> cases vflag <;> simp [List.count_cons, e1, e2, e3, e4, e5]

end Schc

namespace Schc

theorem loop_inv (buffer : ABuf) (fuel : Nat) (st r : OptState) (hinv : WalkInv st) (h : optionLoop buffer .syntactic fuel st = .ok r) : WalkInv r := by
  induction fuel generalizing st with
  | zero => simp [optionLoop, throw, throwThe, MonadExceptOf.throw] at h
  | succ fuel ih =>
    unfold optionLoop at h
    simp only [bind, Except.bind] at h
    cases hs : optionStep buffer .syntactic st with
    | error e => simp [hs] at h
    | ok o =>
      cases o with
      | none => simp only [hs, pure, Except.pure, Except.ok.injEq] at h; subst h; exact hinv
      | some s2 => simp only [hs] at h; exact ih s2 (step_inv buffer st s2 hinv hs) h

/-- every option field the syntactic parser returns carries its occurrence number: the k-th field with a given id
    has position k (for ANY input the parser accepts, not only RFC-encoded ones) -/
theorem parseOptions_numbered (ob : ABuf) (fuel : Nat) (fs : List Field) (c : Nat) (h : parseOptions ob .syntactic fuel = .ok (fs, c)) :
    ∃ opts, opts = numberFrom [] (pairs opts) ∧ (fs = opts ∨ fs = opts ++ [⟨Gen.CoAPF.PAYLOAD_MARKER, ABuf.ofNat 8 0xff, 0⟩]) := by
  unfold parseOptions at h
  simp only [bind, Except.bind] at h
  cases hl : optionLoop ob .syntactic fuel {} with
  | error e => simp [hl] at h
  | ok r =>
    have hinv := loop_inv ob fuel {} r ⟨rfl, fun k => rfl⟩ hl
    simp only [hl] at h
    refine ⟨r.fields, hinv.1, ?_⟩
    split at h <;> simp only [pure, Except.pure, Except.ok.injEq, Prod.mk.injEq] at h
    · right; exact h.1.symm
    · left; exact h.1.symm

end Schc
