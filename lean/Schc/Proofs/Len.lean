/- C17: the size prefix. -/
import Schc.Proofs.BitsLemmas
import Schc.Spec.Rfc8724
import Schc.Py.Core

namespace Schc
open Bits

theorem encLen_length (n : Nat) : (Spec.encLen n).length = Spec.encLenWidth n := by
  unfold Spec.encLen Spec.encLenWidth; split <;> [skip; split] <;> simp

theorem bytesBits_cons (b : Nat) (bs : List Nat) : ABuf.bytesBits (b :: bs) = Bits.ofNat 8 b ++ ABuf.bytesBits bs := by
  simp [ABuf.bytesBits]

theorem bytesBits_nil : ABuf.bytesBits [] = [] := rfl

theorem bytesBits_length (c : List Nat) : (ABuf.bytesBits c).length = 8 * c.length := by
  induction c with
  | nil => rfl
  | cons b bs ih => rw [bytesBits_cons, List.length_append, ofNat_length, ih, List.length_cons]; omega

theorem ofNat8_split (n : Nat) (h : n < 16) : Bits.ofNat 8 n = Bits.zeros 4 ++ Bits.ofNat 4 n := by
  have : Bits.ofNat (4 + 4) (0 * 2 ^ 4 + n) = Bits.ofNat 4 0 ++ Bits.ofNat 4 n := ofNat_append 4 4 0 n (by omega)
  have z : Bits.ofNat 4 0 = Bits.zeros 4 := by decide
  rw [z] at this
  simpa using this

theorem ofNat16_split (n : Nat) (h : n < 65536) : Bits.ofNat 8 (n / 256) ++ Bits.ofNat 8 (n % 256) = Bits.ofNat 16 n := by
  have := ofNat_append 8 8 (n / 256) (n % 256) (by omega)
  rw [← this]; congr 1; omega

/-- the encoder returns exactly the RFC's bit patterns, as a left-padded buffer -/
theorem encodeLength_eq (n : Nat) (h : n < 65536) : encodeLength n = .ok ⟨Spec.encLen n, .left⟩ := by
  unfold encodeLength Spec.encLen
  have h0 : ¬ n ≥ 65536 := by omega
  simp only [h0, if_false, bind, Except.bind, pure, Except.pure]
  by_cases h1 : n < 15
  · simp only [h1, if_true]
    rfl
  · by_cases h2 : n < 255
    · simp only [h1, h2, if_true, if_false]
      rfl
    · simp only [h1, h2, if_false]
      congr 1
      simp only [ABuf.ofBytes, bytesBits_cons, bytesBits_nil, List.append_nil, List.length_append, ofNat_length]
      rw [ofNat16_split n h]
      have e1 : Bits.ofNat 8 15 ++ (Bits.ofNat 8 255 ++ Bits.ofNat 16 n) = Bits.zeros 4 ++ (Bits.ofNat 12 4095 ++ Bits.ofNat 16 n) := by
        have : Bits.ofNat 8 15 ++ Bits.ofNat 8 255 = Bits.zeros 4 ++ Bits.ofNat 12 4095 := by decide
        rw [← List.append_assoc, this, List.append_assoc]
      rw [e1]
      simp [Bits.zeros]

theorem encodeLength_too_big (n : Nat) (h : 65536 ≤ n) : encodeLength n = .error .assertionError := by
  unfold encodeLength; simp [h, bind, Except.bind, throw, throwThe, MonadExceptOf.throw]

theorem slice_zero (b : Bits) (j : Nat) : Bits.slice b 0 j = b.take j := by simp [Bits.slice]

/-- decoding the announcement returns the size and consumes exactly its bits, whatever follows -/
theorem decodeLength_encLen (n : Nat) (h : n < 65536) (rest : Bits) (side : Pad) :
    decodeLength ⟨Spec.encLen n ++ rest, side⟩ = (n, Spec.encLenWidth n) := by
  unfold decodeLength Spec.encLen Spec.encLenWidth
  simp only [Bits.slice, List.drop_zero, Nat.sub_zero]
  by_cases h1 : n < 15
  · simp only [h1, if_true, take_append_ofNat]
    rw [toNat_ofNat _ _ (by omega)]; simp [h1]
  · by_cases h2 : n < 255
    · simp only [h1, h2, if_true, if_false]
      rw [List.append_assoc, take_append_ofNat, toNat_ofNat _ _ (by decide)]
      simp only [show ¬ (15 < 15) by decide, if_false]
      rw [drop_append_ofNat, show 12 - 4 = 8 by rfl, take_append_ofNat, toNat_ofNat _ _ (by omega)]; simp [h2]
    · simp only [h1, h2, if_false]
      have split12 : Bits.ofNat 12 4095 = Bits.ofNat 4 15 ++ Bits.ofNat 8 255 := by decide
      rw [split12, List.append_assoc, List.append_assoc, take_append_ofNat, toNat_ofNat _ _ (by decide)]
      simp only [show ¬ (15 < 15) by decide, if_false]
      rw [drop_append_ofNat, show 12 - 4 = 8 by rfl, take_append_ofNat, toNat_ofNat _ _ (by decide)]
      simp only [show ¬ (255 < 255) by decide, if_false]
      have : (Bits.ofNat 4 15 ++ (Bits.ofNat 8 255 ++ (Bits.ofNat 16 n ++ rest))).drop 12 = Bits.ofNat 16 n ++ rest := by
        rw [show (12 : Nat) = 4 + 8 by rfl, ← List.drop_drop, drop_append_ofNat, drop_append_ofNat]
      rw [this, show 28 - 12 = 16 by rfl, take_append_ofNat, toNat_ofNat _ _ (by omega)]

end Schc
