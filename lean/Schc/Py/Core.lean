/-
L1 model of `actions/compression.py`, `matching/operators.py`, `compressor/compressor.py`,
`decompressor/decompressor.py`, `ruler/ruler.py` over abstract buffers, with Python's control flow
(zip truncation, `continue`, asserts, dict lookups, lazily evaluated generators).
-/
import Schc.Py.Model
import Schc.Py.Compute

namespace Schc

/-! ### actions/compression.py -/

/-- `least_significant_bits(field, bit_length)`: byte slicing and bitmask on the field's *content*,
    result `Buffer(residue, bit_length)` (left-padded) -/
def leastSignificantBits (v : ABuf) (k : Nat) : Py ABuf := do
  let c := v.content
  let full := k / 8
  let residue := if full > 0 then lastN c full else []
  let lead := k % 8
  let residue ← if lead > 0 then do
      -- `content[-(full + 1)]`
      if c.length < full + 1 then throw .indexError
      let partialByte ← idx c (c.length - (full + 1))
      pure ((partialByte &&& (0xff >>> (8 - lead))) :: residue)
    else pure residue
  pure (ABuf.ofBytes residue k .left)

/-- `_encode_length` (RFC 8724 §7.4.2) -/
def encodeLength (n : Nat) : Py ABuf := do
  if n ≥ 65536 then throw .assertionError
  if n < 15 then pure (ABuf.ofBytes [n] 4 .left)
  else if n < 255 then pure (ABuf.ofBytes [0x0f, n] 12 .left)
  else pure (ABuf.ofBytes [0x0f, 0xff, n / 256, n % 256] 28 .left)

/-! ### compressor.py -/

def isBuf : TV → Bool | .buf _ => true | .map _ => false

/-- the residue (with its size prefix) one (packet field, rule field) pair appends -/
def fieldResidue (pf : Field) (rf : RuleField) : Py (List ABuf) := do
  match rf.cda with
  | .notSent | .compute => pure []
  | .lsb =>
    match rf.tv with
    | .map _ => throw .assertionError
    | .buf tv =>
      if tv.length > pf.value.length then throw .unmodelled   -- negative bit_length
      let r ← leastSignificantBits pf.value (pf.value.length - tv.length)
      if rf.length = 0 then do
        let e ← encodeLength r.length
        pure [e, r]
      else pure [r]
  | .mappingSent =>
    match rf.tv with
    | .buf _ => throw .assertionError
    | .map fwd =>
      match dictGet fwd pf.value with
      | some i => pure [i]
      | none => throw .keyError
  | .valueSent =>
    if rf.length = 0 then do
      let e ← encodeLength pf.value.length
      pure [e, pf.value]
    else pure [pf.value]

/-- `for pf, rf in zip(packet_fields, rule.field_descriptors)` -/
def compressFields : List Field → List RuleField → ABuf → Py ABuf
  | pf :: pfs, rf :: rfs, acc => do
    let rs ← fieldResidue pf rf
    compressFields pfs rfs (rs.foldl ABuf.add acc)
  | _, _, acc => pure acc

/-- `compress(packet_descriptor, rule_descriptor)` -/
def compress (p : Packet) (r : Rule) : Py ABuf := do
  let schc := (ABuf.empty .right).add r.id
  match r.nature with
  | .compression =>
    let s ← compressFields p.fields r.fields schc
    pure (s.add p.payload)
  | .noCompression =>
    pure ((p.fields.foldl (fun acc f => acc.add f.value) schc).add p.payload)

/-! ### decompressor.py -/

/-- `_decode_length` and the inline decoder of the value-sent branch: (residue size, prefix size) -/
def decodeLength (s : ABuf) : Nat × Nat :=
  let a := Bits.toNat (Bits.slice s.bits 0 4)
  if a < 15 then (a, 4)
  else
    let b := Bits.toNat (Bits.slice s.bits 4 12)
    if b < 255 then (b, 12)
    else (Bits.toNat (Bits.slice s.bits 12 28), 28)

structure ComputeEntry where
  pos : Nat
  id : String
  deriving Repr

/-- `compute_function_sort` -/
def computeCmp (a b : ComputeEntry) : Int :=
  if (Compute.depsOf b.id).contains a.id then -1
  else if (Compute.depsOf a.id).contains b.id then 1
  else (a.pos : Int) - (b.pos : Int)

/-- stable insertion sort with the comparator (coincides with `list.sort` whenever the
    comparator is a strict weak order on the entries; see DESIGN.md §3) -/
def insertEntry (e : ComputeEntry) : List ComputeEntry → List ComputeEntry
  | [] => [e]
  | x :: xs => if computeCmp e x < 0 then e :: x :: xs else x :: insertEntry e xs

def sortEntries (l : List ComputeEntry) : List ComputeEntry :=
  l.foldl (fun acc e => insertEntry e acc) []

/-- one rule field: (decompressed field, bits consumed, compute entry?) -/
def decompressField (s : ABuf) (pos : Nat) (rf : RuleField) : Py (ABuf × Nat × Option ComputeEntry) := do
  let e := ABuf.empty .right
  match rf.cda with
  | .notSent =>
    match rf.tv with
    | .buf tv => pure (e.add tv, 0, none)
    | .map _ => throw .typeError
  | .lsb =>
    match rf.tv with
    | .map _ => throw .assertionError
    | .buf tv =>
      if rf.length ≠ 0 then
        if tv.length > rf.length then throw .unmodelled  -- negative slice bound
        let k := rf.length - tv.length
        pure ((e.add tv).add (s.slice 0 k), k, none)
      else
        let (k, p) := decodeLength s
        pure ((e.add tv).add (s.slice p (p + k)), p + k, none)
  | .mappingSent =>
    match rf.tv with
    | .buf _ => throw .assertionError
    | .map fwd =>
      match (reverseOf fwd).find? (fun kv => kv.1.beq (s.slice 0 kv.1.length)) with
      | some (k, v) => pure (e.add v, k.length, none)
      | none => pure (e, 0, none)
  | .valueSent =>
    match rf.tv with
    | .map _ => throw .assertionError
    | .buf _ =>
      if rf.length ≠ 0 then pure (e.add (s.slice 0 rf.length), rf.length, none)
      else
        let (k, p) := decodeLength s
        pure (e.add (s.slice p (p + k)), p + k, none)
  | .compute =>
    -- `Buffer(bytes(1 + fl//8), fl)`; `ComputeFunctions[field_id]` raises KeyError for other ids
    if (Gen.computeFunctions.find? (·.1 == rf.id)).isNone then throw .keyError
    pure (ABuf.ofNat rf.length 0, 0, some ⟨pos, rf.id⟩)

def decompressFields : List RuleField → Nat → ABuf → Py (Compute.Fields × List ComputeEntry × ABuf)
  | [], _, s => pure ([], [], s)
  | rf :: rfs, pos, s => do
    let (f, k, ce) ← decompressField s pos rf
    let (fs, ces, rest) ← decompressFields rfs (pos + 1) (s.from_ k)
    pure ((rf.id, f) :: fs, (match ce with | some c => c :: ces | none => ces), rest)

def runComputes : List ComputeEntry → Compute.Fields → Py Compute.Fields
  | [], fs => pure fs
  | ce :: ces, fs => do
    let v ← Compute.compute ce.id fs ce.pos
    runComputes ces (fs.set ce.pos (ce.id, v))

/-- `decompress(schc_packet, rule_descriptor)` up to the final list of fields (before concatenation) -/
def decompressToFields (schc : ABuf) (r : Rule) : Py Compute.Fields := do
  let s := schc.from_ r.id.length
  let (fs, ces, rest) ← decompressFields r.fields 0 s
  let fs := fs ++ [(Gen.payloadId, rest)]
  runComputes (sortEntries ces) fs

/-- `decompress(schc_packet, rule_descriptor)` (no unparser) -/
def decompress (schc : ABuf) (r : Rule) : Py ABuf := do
  let fs ← decompressToFields schc r
  pure (fs.foldl (fun acc f => acc.add f.2) (ABuf.empty .right))

/-! ### matching/operators.py, ruler.py -/

/-- `most_significant_bits(field, pattern)` -/
def msbMatch (v pattern : ABuf) : Bool :=
  if pattern.length > v.length then false
  else (v.bits.take pattern.length) == pattern.bits

/-- `_field_match` -/
def fieldMatch (pf : Field) (rf : RuleField) : Py Bool := do
  if pf.id ≠ rf.id then pure false
  else match rf.mo with
  | .ignore => pure true
  | .equal =>
    match rf.tv with
    | .buf tv => pure (pf.value.beq tv)
    | .map _ => throw .assertionError
  | .msb =>
    if rf.length ≠ 0 ∧ rf.length ≠ pf.value.length then pure false
    else match rf.tv with
      | .buf tv => pure (msbMatch pf.value tv)
      | .map _ => throw .assertionError
  | .matchMapping =>
    match rf.tv with
    | .map fwd => pure (dictGet fwd pf.value).isSome
    | .buf _ => throw .assertionError

def dirApplies (pd : Dir) (d : Dir) : Bool := d == pd || d == .bi

/-- `any(_field_match(pf, rf) == False for (pf, rf) in zip(...))` — stops at the first mismatch -/
def anyMismatch : List Field → List RuleField → Py Bool
  | pf :: pfs, rf :: rfs => do
    let m ← fieldMatch pf rf
    if m then anyMismatch pfs rfs else pure true
  | _, _ => pure false

/-- does `match_packet_descriptor` yield this rule? -/
def ruleMatches (p : Packet) (r : Rule) : Py Bool :=
  match r.nature with
  | .noCompression => pure true
  | .compression => do
    let rfs := r.fields.filter (fun f => dirApplies p.dir f.dir)
    if p.fields.length ≠ rfs.length then pure false
    else do
      let mis ← anyMismatch p.fields rfs
      pure (!mis)

/-- the generator `match_packet_descriptor`, fully consumed (BEST strategy, `list(...)`) -/
def matchAll : List Rule → Packet → Py (List Rule)
  | [], _ => pure []
  | r :: rs, p => do
    let m ← ruleMatches p r
    let rest ← matchAll rs p
    pure (if m then r :: rest else rest)

/-- `next(match_packet_descriptor(...), None)`: rules after the first match are never evaluated -/
def matchFirst : List Rule → Packet → Py (Option Rule)
  | [], _ => pure none
  | r :: rs, p => do
    if ← ruleMatches p r then pure (some r) else matchFirst rs p

/-- `match_schc_packet`; an empty rule set leaves `rule_id` unbound -/
def matchSchc (rules : List Rule) (s : ABuf) : Py Rule :=
  match rules.find? (fun r => r.id.length ≤ s.length && r.id.beq (s.slice 0 r.id.length)) with
  | some r => pure r
  | none => if rules.isEmpty then throw .unboundLocal else throw .ruleIDMatchError

/-! ### the optional `direction` argument of `compress`, `decompress` and `ContextManager.decompress`

With `direction=None` (the default) both functions walk ALL field descriptors of the rule; with a direction they first
keep the descriptors marked with that direction or bidirectional — the list comprehension is exactly the one the
ruler uses — and then run the same code on that list. -/

/-- the rule with only the descriptors that apply to direction `d`, in rule order -/
def restrict (r : Rule) (d : Dir) : Rule := { r with fields := r.fields.filter (fun f => dirApplies d f.dir) }

/-- the rule a call with `direction=d` works on -/
def restrictO (r : Rule) (d : Option Dir) : Rule :=
  match d with
  | none => r
  | some d => restrict r d

/-- `compress(packet_descriptor, rule_descriptor, direction)` -/
def compressD (p : Packet) (r : Rule) (d : Option Dir) : Py ABuf :=
  match d with
  | none => compress p r
  | some d => compress p (restrict r d)

/-- `decompress(schc_packet, rule_descriptor, direction=direction)` -/
def decompressD (schc : ABuf) (r : Rule) (d : Option Dir) : Py ABuf :=
  match d with
  | none => decompress schc r
  | some d => decompress schc (restrict r d)

end Schc
