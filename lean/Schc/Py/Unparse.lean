/-
L1 model of the un-parsing path: `PacketParser.unparse` (parser/parser.py), `HeaderParser.unparse` and its one
override `CoAPParser.unparse` (modelled in `Schc.Py.Parsers`), and `decompress(schc_packet, rule, unparser=…,
direction=…)` (decompressor.py) — what a receiver uses to get the bytes back when the packet was parsed with CoAP
options in semantic mode.
-/
import Schc.Py.Core
import Schc.Py.Parsers

namespace Schc

/-- Python `pat in s` on strings: `pat` occurs somewhere in `s` -/
def listContains (pat : List Char) : List Char → Bool
  | [] => pat.isEmpty
  | c :: cs => pat.isPrefixOf (c :: cs) || listContains pat cs

def strContains (s pat : String) : Bool := listContains pat.toList s.toList

/-- `HeaderParser.name` of an instance of a registered parser class (regenerated table class ↦ name) -/
def parserNameOf (p : ParserInst) : Py String :=
  match Gen.parserNames.find? (·.1 == p.cls) with
  | some (_, n) => pure n
  | none => throw .unmodelled

/-- `parser.unparse(fields)`: the base class returns its argument; only `CoAPParser` overrides it -/
def headerUnparse (p : ParserInst) (fs : Compute.Fields) : Py Compute.Fields :=
  if p.cls == "CoAPParser" then coapUnparse p.coapMode fs else pure fs

/-- the loop of `PacketParser.unparse`: the fields are in packet order; each header parser, in stack order, takes the
    leading run of the fields not yet taken whose id contains its name, and contributes what its own `unparse`
    returns; returns (output, fields nobody took) -/
def unparseClaimed : Compute.Fields → List (ParserInst × String) → Py (Compute.Fields × Compute.Fields)
  | rem, [] => pure ([], rem)
  | rem, (p, n) :: rest => do
    let mine ← headerUnparse p (rem.takeWhile (fun f => strContains f.1 n))
    let (more, rem') ← unparseClaimed (rem.dropWhile (fun f => strContains f.1 n)) rest
    pure (mine ++ more, rem')

/-- `PacketParser.unparse(decompressed_fields)`; fields no parser of the stack takes (the payload, headers reached
    by next-header prediction) follow unchanged -/
def packetUnparse (parsers : List ParserInst) (fs : Compute.Fields) : Py Compute.Fields := do
  let names ← parsers.mapM parserNameOf
  let (claimed, rem) ← unparseClaimed fs (parsers.zip names)
  pure (claimed ++ rem)

/-- `decompress(…, unparser=…)` up to the final list of fields: residues → fields (compute fields as zero
    placeholders) → un-parse when an unparser is given → compute functions, at the positions recorded while walking
    the rule (un-parsing never shortens the list, so those positions exist) -/
def decompressToFieldsU (schc : ABuf) (r : Rule) (unparser : Option (List ParserInst)) : Py Compute.Fields := do
  let s := schc.from_ r.id.length
  let (fs, ces, rest) ← decompressFields r.fields 0 s
  let fs := fs ++ [(Gen.payloadId, rest)]
  let fs ← match unparser with
    | some ps => packetUnparse ps fs
    | none => pure fs
  runComputes (sortEntries ces) fs

/-- `decompress(schc_packet, rule_descriptor, unparser, direction)` -/
def decompressU (schc : ABuf) (r : Rule) (unparser : Option (List ParserInst)) (d : Option Dir) : Py ABuf := do
  let fs ← decompressToFieldsU schc (restrictO r d) unparser
  pure (fs.foldl (fun acc f => acc.add f.2) (ABuf.empty .right))

end Schc
