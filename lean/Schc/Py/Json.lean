/-
L1 model of the `__json__` / `__from_json_object__` pairs of `binary/buffer.py`, `rfc8724.py`,
`rfc8724extras.py` and of the `__eq__` methods they are compared with (C12).
The JSON *text* layer (`json.dumps` / `json.loads` of a tree of dict / list / str / int) is the
standard library's and is trusted; the model works on the tree.
-/
import Schc.Py.Manager

namespace Schc

inductive Json
  | str (s : String)
  | num (n : Nat)
  | arr (l : List Json)
  | obj (kv : List (String × Json))
  deriving Repr, Inhabited

namespace Json

def get? (j : Json) (k : String) : Option Json :=
  match j with
  | .obj kv => (kv.find? (·.1 == k)).map (·.2)
  | _ => none

def getD (j : Json) (k : String) : Py Json :=
  match j.get? k with
  | some v => pure v
  | none => throw (match j with | .obj _ => .keyError | _ => .typeError)

def asStr : Json → Py String | .str s => pure s | _ => throw .typeError
def asNat : Json → Py Nat | .num n => pure n | _ => throw .typeError
def asArr : Json → Py (List Json) | .arr l => pure l | _ => throw .typeError

partial def beq : Json → Json → Bool
  | .str a, .str b => a == b
  | .num a, .num b => a == b
  | .arr a, .arr b => a.length == b.length && (a.zip b).all (fun p => beq p.1 p.2)
  | .obj a, .obj b => a.length == b.length && (a.zip b).all (fun p => p.1.1 == p.2.1 && beq p.1.2 p.2.2)
  | _, _ => false

end Json

def enumValue (table : List (String × String)) (member : String) : String :=
  match table.find? (·.1 == member) with | some (_, v) => v | none => "?"

def enumMember (table : List (String × String)) (value : String) : Option String :=
  (table.find? (·.2 == value)).map (·.1)

def padName : Pad → String | .left => "LEFT" | .right => "RIGHT"
def dirName : Dir → String | .up => "UP" | .dw => "DOWN" | .bi => "BIDIRECTIONAL"
def moName : MO → String | .equal => "EQUAL" | .ignore => "IGNORE" | .msb => "MSB" | .matchMapping => "MATCH_MAPPING"
def cdaName : CDA → String
  | .notSent => "NOT_SENT" | .lsb => "LSB" | .mappingSent => "MAPPING_SENT" | .valueSent => "VALUE_SENT" | .compute => "COMPUTE"
def natureName : Nature → String | .compression => "COMPRESSION" | .noCompression => "NO_COMPRESSION"

def hexDigitJ (n : Nat) : Char := "0123456789abcdef".toList.getD n '?'
def hexOf (l : List Nat) : String := String.ofList (l.flatMap fun b => [hexDigitJ ((b / 16) % 16), hexDigitJ (b % 16)])
def hexValJ (c : Char) : Option Nat :=
  if '0' ≤ c ∧ c ≤ '9' then some (c.toNat - '0'.toNat)
  else if 'a' ≤ c ∧ c ≤ 'f' then some (c.toNat - 'a'.toNat + 10)
  else if 'A' ≤ c ∧ c ≤ 'F' then some (c.toNat - 'A'.toNat + 10)
  else none
def bytesOfHexJ (s : String) : Py (List Nat) :=
  let rec go : List Char → Option (List Nat)
    | [] => some []
    | [_] => none
    | a :: b :: rest => do let x ← hexValJ a; let y ← hexValJ b; let r ← go rest; pure ((x * 16 + y) :: r)
  match go s.toList with | some l => pure l | none => throw .valueError

/-- `Buffer.__json__` -/
def ABuf.toJson (b : ABuf) : Json :=
  .obj [("content", .str (hexOf b.content)), ("length", .num b.length), ("padding", .str (enumValue Gen.paddingValues (padName b.side)))]

/-- `Buffer.__from_json_object__`: `Buffer(bytes.fromhex(content), length, Padding(padding))` -/
def ABuf.fromJson (j : Json) : Py ABuf := do
  let c ← (← j.getD "content").asStr
  let bytes ← bytesOfHexJ c
  let n ← (← j.getD "length").asNat
  let p ← (← j.getD "padding").asStr
  match enumMember Gen.paddingValues p with
  | some "LEFT" => pure (ABuf.ofBytes bytes n .left)
  | some "RIGHT" => pure (ABuf.ofBytes bytes n .right)
  | _ => throw .valueError

/-- `MatchMapping.__json__`: entries of the *reverse* dict -/
def mappingToJson (fwd : List (ABuf × ABuf)) : Json :=
  .arr ((reverseOf fwd).map fun (k, v) => .obj [("index", k.toJson), ("value", v.toJson)])

/-- `MatchMapping.__from_json_object__`: `forward[value] = index` entry by entry -/
def mappingFromJson (j : Json) : Py (List (ABuf × ABuf)) := do
  let l ← j.asArr
  l.foldlM (fun fwd e => do
    let i ← ABuf.fromJson (← e.getD "index")
    let v ← ABuf.fromJson (← e.getD "value")
    pure (dictSet fwd v i)) []

def TV.toJson : TV → Json
  | .buf b => b.toJson
  | .map fwd => mappingToJson fwd

def RuleField.toJson (f : RuleField) : Json :=
  .obj [("id", .str f.id), ("length", .num f.length), ("position", .num f.position),
        ("direction", .str (enumValue Gen.directionValues (dirName f.dir))), ("target_value", f.tv.toJson),
        ("matching_operator", .str (enumValue Gen.matchingOperatorValues (moName f.mo))),
        ("compression_decompression_action", .str (enumValue Gen.cdaValues (cdaName f.cda)))]

def dirOfStr (s : String) : Py Dir :=
  match enumMember Gen.directionValues s with
  | some "UP" => pure .up | some "DOWN" => pure .dw | some "BIDIRECTIONAL" => pure .bi | _ => throw .unmodelled
def moOfStr (s : String) : Py MO :=
  match enumMember Gen.matchingOperatorValues s with
  | some "EQUAL" => pure .equal | some "IGNORE" => pure .ignore | some "MSB" => pure .msb
  | some "MATCH_MAPPING" => pure .matchMapping | _ => throw .unmodelled
def cdaOfStr (s : String) : Py CDA :=
  match enumMember Gen.cdaValues s with
  | some "NOT_SENT" => pure .notSent | some "LSB" => pure .lsb | some "MAPPING_SENT" => pure .mappingSent
  | some "VALUE_SENT" => pure .valueSent | some "COMPUTE" => pure .compute | _ => throw .unmodelled

/-- `RuleFieldDescriptor.__from_json_object__`: the target value is a MatchMapping iff its JSON is a list -/
def RuleField.fromJson (j : Json) : Py RuleField := do
  let tvj ← j.getD "target_value"
  let tv ← match tvj with
    | .arr _ => do pure (TV.map (← mappingFromJson tvj))
    | _ => do pure (TV.buf (← ABuf.fromJson tvj))
  pure { id := ← (← j.getD "id").asStr, length := ← (← j.getD "length").asNat, position := ← (← j.getD "position").asNat,
         dir := ← dirOfStr (← (← j.getD "direction").asStr), tv := tv,
         mo := ← moOfStr (← (← j.getD "matching_operator").asStr),
         cda := ← cdaOfStr (← (← j.getD "compression_decompression_action").asStr) }

def Rule.toJson (r : Rule) : Json :=
  let base := [("id", r.id.toJson), ("nature", Json.str (enumValue Gen.ruleNatureValues (natureName r.nature)))]
  match r.nature with
  | .compression => .obj (base ++ [("field_descriptors", .arr (r.fields.map RuleField.toJson))])
  | .noCompression => .obj base

def Rule.fromJson (j : Json) : Py Rule := do
  let nat ← (← j.getD "nature").asStr
  let i ← ABuf.fromJson (← j.getD "id")
  if nat == enumValue Gen.ruleNatureValues "COMPRESSION" then
    let fs ← (← (← j.getD "field_descriptors").asArr).mapM RuleField.fromJson
    pure ⟨i, .compression, fs⟩
  else if nat == enumValue Gen.ruleNatureValues "NO_COMPRESSION" then
    pure ⟨i, .noCompression, []⟩
  else throw .unmodelled

def Context.toJson (c : Context) : Json :=
  .obj [("id", .str c.id), ("description", .str ""), ("interface_id", .str c.interfaceId), ("parser_id", .str c.parserId),
        ("ruleset", .arr (c.ruleset.map Rule.toJson))]

def Context.fromJson (j : Json) : Py Context := do
  pure { id := ← (← j.getD "id").asStr, interfaceId := ← (← j.getD "interface_id").asStr,
         parserId := ← (← j.getD "parser_id").asStr, ruleset := ← (← (← j.getD "ruleset").asArr).mapM Rule.fromJson }

def Field.toJson (f : Field) : Json :=
  .obj [("id", .str f.id), ("value", f.value.toJson), ("position", .num f.position)]

def Field.fromJson (j : Json) : Py Field := do
  pure ⟨← (← j.getD "id").asStr, ← ABuf.fromJson (← j.getD "value"), ← (← j.getD "position").asNat⟩

def Packet.toJson (p : Packet) : Json :=
  .obj [("direction", .str (enumValue Gen.directionValues (dirName p.dir))), ("fields", .arr (p.fields.map Field.toJson)),
        ("payload", p.payload.toJson), ("raw", p.raw.toJson), ("length", .num p.raw.length)]

def Packet.fromJson (j : Json) : Py Packet := do
  pure { dir := ← dirOfStr (← (← j.getD "direction").asStr), fields := ← (← (← j.getD "fields").asArr).mapM Field.fromJson,
         payload := ← ABuf.fromJson (← j.getD "payload"), raw := ← ABuf.fromJson (← j.getD "raw") }

/-- `HeaderDescriptor` (id, length, fields) as a data class of its own -/
structure HeaderDesc where
  id : String
  length : Nat
  fields : List Field
  deriving Repr

def HeaderDesc.toJson (h : HeaderDesc) : Json :=
  .obj [("id", .str h.id), ("length", .num h.length), ("fields", .arr (h.fields.map Field.toJson))]

def HeaderDesc.fromJson (j : Json) : Py HeaderDesc := do
  pure { id := ← (← j.getD "id").asStr, length := ← (← j.getD "length").asNat,
         fields := ← (← (← j.getD "fields").asArr).mapM Field.fromJson }

/-! ### the `__eq__` methods -/

/-- dict equality of two forward mappings (same keys, equal values; order does not matter) -/
def mappingEq (a b : List (ABuf × ABuf)) : Bool :=
  a.length == b.length && a.all fun (k, v) => match dictGet b k with | some v' => v.beq v' | none => false

def TV.pyEq : TV → TV → Bool
  | .buf a, .buf b => a.beq b
  | .map a, .map b => mappingEq a b
  | _, _ => false

def RuleField.pyEq (a b : RuleField) : Bool :=
  a.id == b.id && a.length == b.length && a.position == b.position && a.dir == b.dir && a.tv.pyEq b.tv && a.mo == b.mo && a.cda == b.cda

def listEq {α} (f : α → α → Bool) (a b : List α) : Bool := a.length == b.length && (a.zip b).all fun p => f p.1 p.2

def Rule.pyEq (a b : Rule) : Bool := a.id.beq b.id && a.nature == b.nature && listEq RuleField.pyEq a.fields b.fields
def Context.pyEq (a b : Context) : Bool :=
  a.id == b.id && a.interfaceId == b.interfaceId && a.parserId == b.parserId && listEq Rule.pyEq a.ruleset b.ruleset
def Field.pyEq (a b : Field) : Bool := a.id == b.id && a.value.beq b.value && a.position == b.position
def Packet.pyEq (a b : Packet) : Bool := a.fields.length == b.fields.length && a.raw.beq b.raw
/-- dataclass equality: id, length, field list -/
def HeaderDesc.pyEq (a b : HeaderDesc) : Bool := a.id == b.id && a.length == b.length && listEq Field.pyEq a.fields b.fields

end Schc
