/-
L1 model of `microschc/binary/buffer.py`, byte level, method by method.

Conventions (DESIGN.md §3): bytes are `List Nat`; Python exceptions are `Except PyErr`;
`x.to_bytes(1,'big')` of a *sum* is `toByte` (raises OverflowError at 256); methods that may assign
to the attributes of an operand return the operand's post-state next to their result.
The `inplace` argument of every internal `pad`/`shift` call site is not written here: it is read
from `Schc.Gen.BufferSites`, which the translator regenerates from the AST of buffer.py on every
run, so that the model follows the source at exactly the places where purity (C16) is decided.
-/
import Schc.Spec.Bits
import Schc.Gen.BufferSites

namespace Schc

inductive Pad | left | right
  deriving DecidableEq, Repr, Inhabited

inductive PyErr
  | parserError | unparserError | ruleDescriptorMatchError | ruleIDMatchError
  | indexError | typeError | valueError | keyError | overflowError | attributeError
  | unboundLocal | stopIteration | assertionError | zeroDivision | hang | unmodelled
  deriving DecidableEq, Repr, Inhabited

abbrev Py := Except PyErr

instance {α : Type} [DecidableEq α] : DecidableEq (Py α) := fun a b =>
  match a, b with
  | .ok x, .ok y => if h : x = y then isTrue (by rw [h]) else isFalse (fun e => h (by cases e; rfl))
  | .error x, .error y => if h : x = y then isTrue (by rw [h]) else isFalse (fun e => h (by cases e; rfl))
  | .ok _, .error _ => isFalse (fun e => by cases e)
  | .error _, .ok _ => isFalse (fun e => by cases e)

/-- `v.to_bytes(1, 'big')` -/
def toByte (v : Nat) : Py Nat := if v < 256 then pure v else throw .overflowError

/-- `l[i]` for `i ≥ 0` -/
def idx (l : List Nat) (i : Nat) : Py Nat :=
  match l[i]? with
  | some x => pure x
  | none => throw .indexError

/-- `l[-1]` -/
def lastElem (l : List Nat) : Py Nat :=
  match l.getLast? with
  | some x => pure x
  | none => throw .indexError

/-- `l[-k:]` for `k > 0` (and `l[len(l)-k:]` for any `k ≤ len(l)`) -/
def lastN (l : List Nat) (k : Nat) : List Nat := l.drop (l.length - k)

/-- `_calculate_padding_length` -/
def padLenOf (n : Nat) : Nat := (8 - n % 8) % 8

def byteLenOf (n : Nat) : Nat := if padLenOf n = 0 then n / 8 else n / 8 + 1

structure Buf where
  content : List Nat
  length : Nat
  padding : Pad
  padLen : Nat
  deriving DecidableEq, Repr, Inhabited

namespace Buf

/-- `Buffer.__init__` -/
def new (content : List Nat) (length : Nat) (padding : Pad) : Py Buf := do
  let pl := padLenOf length
  let bl := byteLenOf length
  match padding with
  | .left =>
    let c := if content.length < bl then List.replicate (bl - content.length) 0 ++ content else content
    let c := c.drop (c.length - bl)
    if pl > 0 then
      let mask := (0xff >>> pl) &&& 0xff
      let c0 ← idx c 0
      pure ⟨(c0 &&& mask) :: c.drop 1, length, padding, pl⟩
    else
      pure ⟨c, length, padding, pl⟩
  | .right =>
    let c := if content.length < bl then content ++ List.replicate (bl - content.length) 0 else content
    let c := c.take bl
    if pl > 0 then
      let mask := (0xff <<< pl) &&& 0xff
      let cl ← lastElem c
      pure ⟨c.dropLast ++ [cl &&& mask], length, padding, pl⟩
    else
      pure ⟨c, length, padding, pl⟩

/-- `Buffer.copy` -/
def copy (b : Buf) : Py Buf := new b.content b.length b.padding

/-- the byte loop of `_shift_left` (LEFT side), bytes visited right to left:
    returns the new bytes of this suffix and the carry handed to the byte on its left -/
def shlLoop (sb : Nat) : List Nat → List Nat × Nat
  | [] => ([], 0)
  | b :: bs =>
    let (out, c) := shlLoop sb bs
    ((((b <<< sb) &&& 0xff) ||| c) :: out, (b >>> (8 - sb)) &&& ((1 <<< sb) - 1))

/-- `_shift_left` (mutates and returns self) -/
def shiftLeftRaw (b : Buf) (shift : Nat) : Py Buf := do
  let newLength := b.length + shift
  let newByteLength := (newLength + 7) / 8
  match b.padding with
  | .left =>
    let (out, carry) := shlLoop (shift % 8) b.content
    let temp := out ++ List.replicate (shift / 8) 0
    let temp ← if temp.length < newByteLength then do
        let cb ← toByte carry
        pure (cb :: temp)
      else pure temp
    pure ⟨temp, newLength, b.padding, padLenOf newLength⟩
  | .right =>
    let extra := newByteLength - b.content.length
    pure ⟨b.content ++ List.replicate extra 0, newLength, b.padding, padLenOf newLength⟩

/-- the byte loop of `_shift_right` (LEFT side): `prev` is the byte on the left -/
def shrLoopL (sh : Nat) : Nat → List Nat → Py (List Nat)
  | _, [] => pure []
  | prev, cur :: rest => do
    let nb ← toByte (((prev &&& ((1 <<< sh) - 1)) <<< (8 - sh)) + (cur >>> sh))
    let out ← shrLoopL sh cur rest
    pure (nb :: out)

/-- `_shift_right` (mutates and returns self) -/
def shiftRightRaw (b : Buf) (shift : Nat) : Py Buf := do
  if shift ≥ b.length then
    pure ⟨[], 0, b.padding, padLenOf 0⟩
  else
    let newLength := b.length - shift
    let newByteLength := (newLength + 7) / 8
    match b.padding with
    | .left =>
      let temp := b.content.take (b.content.length - shift / 8)
      let sh := shift % 8
      let newContent ← if sh > 0 then shrLoopL sh 0 temp else pure temp
      pure ⟨lastN newContent newByteLength, newLength, b.padding, padLenOf newLength⟩
    | .right =>
      let nc := b.content.take newByteLength
      let npl := padLenOf newLength
      if npl > 0 then
        let lb ← lastElem nc
        let lb' ← toByte ((lb &&& (0xff <<< npl)) &&& 0xff)
        pure ⟨nc.dropLast ++ [lb'], newLength, b.padding, padLenOf newLength⟩
      else
        pure ⟨nc, newLength, b.padding, padLenOf newLength⟩

/-- `Buffer.shift(shift, inplace)`: returns (result, self afterwards).
    Negative `shift` is a left shift. -/
def shift (b : Buf) (s : Int) (inplace : Bool) : Py (Buf × Buf) := do
  if s = 0 then
    if inplace then pure (b, b) else do
      let c ← b.copy
      pure (c, b)
  else
    let work ← if inplace then pure b else b.copy
    let r ← if s < 0 then shiftLeftRaw work s.natAbs else shiftRightRaw work s.natAbs
    pure (r, if inplace then r else b)

/-- `Buffer.pad(padding, inplace)`: returns (result, self afterwards) -/
def pad (b : Buf) (padding : Pad) (inplace : Bool) : Py (Buf × Buf) := do
  if padding = b.padding then
    if inplace then pure (b, b) else do
      let c ← new b.content b.length b.padding
      pure (c, b)
  else
    let selfCopy ← b.copy
    let pl := b.padLen
    let (work, sv) : Buf × Int :=
      match padding with
      | .right => (selfCopy, - (pl : Int))
      | .left => ({ selfCopy with padding := padding, length := selfCopy.length + pl }, (pl : Int))
    let (buffer, _) ← shift work sv Gen.padShiftInplace
    let buffer : Buf := { buffer with length := b.length, padding := padding, padLen := pl }
    if inplace then
      pure (buffer, { b with content := buffer.content, length := buffer.length, padding := buffer.padding })
    else
      pure (buffer, b)

/-- big-endian bytes to Nat (`int.from_bytes(content, 'big')`) -/
def bytesToNat : List Nat → Nat
  | [] => 0
  | b :: bs => b * 256 ^ bs.length + bytesToNat bs

/-- `Buffer.value()` (unsigned, big-endian): returns (value, self afterwards) -/
def value (b : Buf) : Py (Nat × Buf) := do
  let (buffer, self') ← match b.padding with
    | .right => pad b .left Gen.valuePadInplace
    | .left => pure (b, b)
  let mask := (0xff >>> buffer.padLen) &&& 0xff
  if buffer.length > 0 then
    let c0 ← idx buffer.content 0
    pure (bytesToNat ((c0 &&& mask) :: buffer.content.drop 1), self')
  else
    pure (bytesToNat (buffer.content.drop 1), self')

/-- the byte loop shared by `__add__` (three places) and `__getitem__` (LEFT side):
    `sb = (b >> k) + carry; carry = (b & mask) << (8 - k)` -/
def shrCarryLoop (k : Nat) : List Nat → Nat → Py (List Nat × Nat)
  | [], carry => pure ([], carry)
  | b :: bs, carry => do
    let sb ← toByte ((b >>> k) + carry)
    let (out, c) ← shrCarryLoop k bs ((b &&& ((1 <<< k) - 1)) <<< (8 - k))
    pure (sb :: out, c)

/-- the byte loop of `__add__` (left is RIGHT-padded, right is LEFT-padded, shift towards the left)
    and of `__getitem__` (RIGHT side), bytes visited right to left:
    `sb = ((b << k) & 0xff) + carry; carry = b >> (8 - k)` (optionally masked) -/
def shlCarryLoop (k : Nat) (maskCarry : Bool) : List Nat → Nat → Py (List Nat × Nat)
  | [], carry => pure ([], carry)
  | b :: bs, carry0 => do
    let (out, c) ← shlCarryLoop k maskCarry bs carry0
    let sb ← toByte (((b <<< k) &&& 0xff) + c)
    let c' := if maskCarry then (b >>> (8 - k)) &&& ((1 <<< k) - 1) else b >>> (8 - k)
    pure (sb :: out, c')

/-- `Buffer.__getitem__` for a slice with resolved bounds `0 ≤ start ≤ stop ≤ length`
    (what `slice.indices` returns) -/
def getRange (b : Buf) (start stop : Nat) : Py Buf := do
  let newLength := stop - start
  if newLength = 0 then
    new [] 0 b.padding
  else
    match b.padding with
    | .left =>
      let startBit := start + b.padLen
      let stopBit := stop + b.padLen
      let startByte := startBit / 8
      let stopByte := (stopBit + 7) / 8
      let firstByteMask := (1 <<< (8 - startBit % 8)) - 1
      let shiftBits := (8 - stopBit % 8) % 8
      let carryMask := (1 <<< shiftBits) - 1
      let c0 ← idx b.content startByte
      let first ← toByte ((c0 &&& firstByteMask) >>> shiftBits)
      let carry := (c0 &&& carryMask) <<< (8 - shiftBits)
      -- `for i in range(start_byte+1, stop_byte): b = self.content[i]`
      let mid := (b.content.drop (startByte + 1)).take (stopByte - (startByte + 1))
      if mid.length < stopByte - (startByte + 1) then throw .indexError
      let (out, _) ← shrCarryLoop shiftBits mid carry
      new (first :: out) newLength b.padding
    | .right =>
      let startByte := start / 8
      let stopByte := (stop + 7) / 8
      let shiftBits := start % 8
      let carryMask := (1 <<< shiftBits) - 1
      let lastByteMask := (0xff <<< (8 - stop % 8)) &&& 0xff
      let lastByte ← (if stopByte = 0 then lastElem b.content else idx b.content (stopByte - 1))
      let tail := ((lastByte &&& lastByteMask) <<< shiftBits) &&& 0xff
      let carry := (lastByte >>> (8 - shiftBits)) &&& carryMask
      let mid := (b.content.drop startByte).take (stopByte - startByte)
      let (out, _) ← shlCarryLoop shiftBits true mid carry
      new (out ++ [tail]) newLength b.padding

/-- `slice.indices(length)` for `slice(start, stop)` with optional integer bounds -/
def sliceBound (len : Nat) (x : Option Int) (dflt : Nat) : Nat :=
  match x with
  | none => dflt
  | some i => if i < 0 then (i + len).toNat else min i.toNat len

/-- `Buffer.__getitem__(slice(start, stop))`. `start > stop` (negative length in the real code) is
    outside every property and not modelled. -/
def getSlice (b : Buf) (start stop : Option Int) : Py Buf := do
  let s := sliceBound b.length start 0
  let e := sliceBound b.length stop b.length
  if s > e then throw .unmodelled
  getRange b s e

/-- `Buffer.__getitem__(i)` for `0 ≤ i < length` -/
def getBit (b : Buf) (i : Nat) : Py Buf := do
  if i ≥ b.length then throw .unmodelled
  getRange b i (i + 1)

/-- `Buffer.__iter__` -/
def iter (b : Buf) : Py (List Nat) :=
  let off := match b.padding with | .left => b.padLen | .right => 0
  (List.range b.length).mapM fun i => do
    let byte ← idx b.content ((i + off) / 8)
    let bo := (i + off) % 8
    pure ((byte &&& 2 ^ (8 - bo - 1)) >>> (8 - bo - 1))

/-- `Buffer.__add__`: returns (result, left afterwards, right afterwards) -/
def add (left right : Buf) : Py (Buf × Buf × Buf) := do
  if right.length = 0 then
    let nb ← left.copy
    pure (nb, left, right)
  else
    let newLength := left.length + right.length
    match left.padding with
    | .left =>
      if right.padLen = 0 then
        let r ← new (left.content ++ right.content) newLength left.padding
        pure (r, left, right)
      else
        let (rightL, right') ← pad right .left Gen.addPadInplace1
        let bitShift := rightL.padLen
        let (out, carry) ← shrCarryLoop bitShift left.content 0
        let r0 ← idx rightL.content 0
        let j ← toByte (r0 + carry)
        let nc := out ++ [j] ++ rightL.content.drop 1
        let nc := if left.padLen + bitShift > 7 then nc.drop 1 else nc
        let r ← new nc newLength left.padding
        pure (r, left, right')
    | .right =>
      if left.padLen = 0 then
        if right.padLen = 0 ∨ right.padding = .right then
          let r ← new (left.content ++ right.content) newLength left.padding
          pure (r, left, right)
        else
          let (rightR, right') ← pad right .right Gen.addPadInplace2
          let r ← new (left.content ++ rightR.content) newLength left.padding
          pure (r, left, right')
      else
        match right.padding with
        | .left =>
          if left.padLen + right.padLen = 8 then
            let ll ← lastElem left.content
            let r0 ← idx right.content 0
            let j ← toByte (ll + r0)
            let r ← new (left.content.dropLast ++ [j] ++ right.content.drop 1) newLength left.padding
            pure (r, left, right)
          else if right.padLen > left.length % 8 then
            let bitShift := right.padLen - left.length % 8
            let (nc, _) ← shlCarryLoop bitShift false right.content 0
            let ll ← lastElem left.content
            let n0 ← idx nc 0
            let j ← toByte (ll + n0)
            let r ← new (left.content.dropLast ++ [j] ++ nc.drop 1) newLength left.padding
            pure (r, left, right)
          else
            let bitShift := 8 - left.padLen - right.padLen
            let (nc, carry) ← shrCarryLoop bitShift right.content 0
            let ll ← lastElem left.content
            let n0 ← idx nc 0
            let j ← toByte (ll + n0)
            let cb ← toByte carry
            let r ← new (left.content.dropLast ++ [j] ++ nc.drop 1 ++ [cb]) newLength left.padding
            pure (r, left, right)
        | .right =>
          let bitShift := 8 - left.padLen
          let (nc, carry) ← shrCarryLoop bitShift right.content 0
          let ll ← lastElem left.content
          let n0 ← idx nc 0
          let j ← toByte (ll + n0)
          let cb ← toByte carry
          let r ← new (left.content.dropLast ++ [j] ++ nc.drop 1 ++ [cb]) newLength left.padding
          pure (r, left, right)

/-- `__and__`, `__or__`, `__xor__`: returns (result, another afterwards) -/
def bitwise (f : Nat → Nat → Nat) (inplaceSite : Bool) (self another : Buf) : Py (Buf × Buf) := do
  if self.length ≠ another.length then throw .valueError
  let (an, another') ← if another.padding ≠ self.padding then pad another self.padding inplaceSite
                        else pure (another, another)
  let c := List.zipWith f self.content an.content
  let r ← new c self.length self.padding
  pure (r, another')

def band := bitwise (· &&& ·) Gen.andPadInplace
def bor := bitwise (· ||| ·) Gen.orPadInplace
def bxor := bitwise (· ^^^ ·) Gen.xorPadInplace

/-- `~b & m` on a byte -/
def invByte (b m : Nat) : Nat := (255 - b % 256) &&& m

/-- `Buffer.__invert__` -/
def invert (b : Buf) : Py Buf := do
  if b.length = 0 then b.copy
  else
    match b.padding with
    | .left =>
      let mask := (1 <<< ((8 - b.padLen) % 8)) - 1
      let c0 ← idx b.content 0
      new (invByte c0 mask :: b.content.map (invByte · 0xff)) b.length b.padding
    | .right =>
      let mask := (0xff <<< b.padLen) &&& 0xff
      let cl ← lastElem b.content
      new (b.content.dropLast.map (invByte · 0xff) ++ [invByte cl mask]) b.length b.padding

/-- `Buffer.__eq__(Buffer)`: returns (verdict, another afterwards) -/
def eq (self another : Buf) : Py (Bool × Buf) := do
  if self.length ≠ another.length then pure (false, another)
  else
    let (asp, another') ← pad another self.padding Gen.eqPadInplace
    pure (self.content == asp.content, another')

/-- `Buffer.__eq__(bytes)` -/
def eqBytes (self : Buf) (bs : List Nat) : Bool := self.content == bs

/-- what `__hash__` hashes: returns (key, self afterwards) -/
def hashKey (b : Buf) : Py (List Nat × Buf) := do
  let (l, self') ← pad b .left Gen.hashPadInplace
  pure (l.content, self')

/-- `Buffer.__setitem__(slice(start, stop), values)`: returns self afterwards.
    (prefix + values + postfix, then content/length/padding_length are assigned) -/
def setRange (b : Buf) (start stop : Nat) (values : Buf) : Py Buf := do
  let pre ← getRange b 0 start
  let post ← getRange b stop b.length
  let (pv, _, _) ← add pre values
  let (nb, _, _) ← add pv post
  pure { b with content := nb.content, length := nb.length, padLen := nb.padLen }

/-- `Buffer.chunks(length, padding)`; `n ≥ 1` -/
def chunks (b : Buf) (n : Nat) (padding : Bool) : Py (List Buf) := do
  if n = 0 then throw .zeroDivision
  let count := if b.length % n = 0 then b.length / n else b.length / n + 1
  let full ← (List.range (count - 1)).mapM fun i => getRange b (min (i * n) b.length) (min (i * n + n) b.length)
  let cursor := (count - 1) * n
  let chunk ← getRange b (min cursor b.length) (min (cursor + n) b.length)
  let chunk ← if padding ∧ chunk.length < n then do
      let padContent := List.replicate (if n % 8 = 0 then n / 8 else n / 8 + 1) 0
      let p ← new padContent (n - chunk.length) .right
      let (c, _, _) ← add chunk p
      pure c
    else pure chunk
  pure (full ++ [chunk])

end Buf
end Schc
