/-
L1 model of `manager/manager.py` (ContextManager) and of the multi-context front end `/repo/microschc.py` (SCHC).
-/
import Schc.Py.Core
import Schc.Py.Parsers

namespace Schc

inductive Strategy | first | best
  deriving DecidableEq, Repr, Inhabited

structure Context where
  id : String
  interfaceId : String
  parserId : String
  ruleset : List Rule
  deriving DecidableEq, Repr, Inhabited

/-- the BEST loop: rules are matched lazily, each match is compressed at once, the first shortest kept -/
def bestLoop (p : Packet) : List Rule → Option ABuf → Py (Option ABuf)
  | [], best => pure best
  | r :: rs, best => do
    if ← ruleMatches p r then
      let c ← compressD p r (some p.dir)
      let best' := match best with
        | none => some c
        | some b => if c.length < b.length then some c else some b
      bestLoop p rs best'
    else bestLoop p rs best

/-- `ContextManager.compress` after parsing -/
def managerCompressPacket (rules : List Rule) (pd : Packet) (dir : Dir) (strat : Strategy) : Py ABuf := do
  let p := { pd with dir := dir }
  match strat with
  | .first =>
    match ← matchFirst rules p with
    | some r => compressD p r (some p.dir)
    | none => throw .ruleDescriptorMatchError
  | .best =>
    match ← bestLoop p rules none with
    | some c => pure c
    | none => throw .ruleDescriptorMatchError

/-- `ContextManager.compress(packet, direction, match_strategy)` -/
def managerCompress (parsers : List ParserInst) (rules : List Rule) (packet : ABuf) (dir : Dir) (strat : Strategy) : Py ABuf := do
  let pd ← packetParse (fuelFor packet) parsers packet
  managerCompressPacket rules pd dir strat

/-- `ContextManager.decompress(schc_packet, direction=None)` -/
def managerDecompress (rules : List Rule) (s : ABuf) (d : Option Dir := none) : Py ABuf := do
  let r ← matchSchc rules s
  decompressD s r d

/-- `SCHC.compress(packet, interface_id)`: contexts of the interface in order; ParserError and
    RuleDescriptorMatchError fall through, anything else escapes -/
def frontCompress (contexts : List Context) (packet : ABuf) (iface : String) : Py ABuf := do
  let cms := contexts.filter (·.interfaceId == iface)
  if cms.isEmpty then throw .keyError
  let rec go : List Context → Py ABuf
    | [] => pure packet
    | c :: cs => do
      let ps ← factory c.parserId
      match managerCompress ps c.ruleset packet .up .first with
      | .ok s => pure s
      | .error .parserError => go cs
      | .error .ruleDescriptorMatchError => go cs
      | .error e => throw e
  go cms

/-- `SCHC.decompress(packet, interface_id)` -/
def frontDecompress (contexts : List Context) (packet : ABuf) (iface : String) : Py ABuf := do
  let cms := contexts.filter (·.interfaceId == iface)
  if cms.isEmpty then throw .keyError
  let rec go : List Context → Py ABuf
    | [] => pure packet
    | c :: cs =>
      match managerDecompress c.ruleset packet with
      | .ok s => pure s
      | .error .ruleIDMatchError => go cs
      | .error e => throw e
  go cms

end Schc
