/-
L1 model above the Buffer: data model of `rfc8724.py` over *abstract buffers* (bits + padding side).
The byte content of an abstract buffer is the derived function `ABuf.content` (canonical bytes);
Python code that peeks at bytes is modelled by the same byte arithmetic on it.
The licence to abstract the byte level away is the C05/C06 refinement (every Buffer operation
returns the canonical Buffer of the list operation's bits); independently this layer has its own
correspondence streams.
-/
import Schc.Spec.Bits
import Schc.Py.Buffer

namespace Schc

structure ABuf where
  bits : Bits
  side : Pad
  deriving DecidableEq, Repr, Inhabited

namespace ABuf

def length (b : ABuf) : Nat := b.bits.length

def empty (side : Pad) : ABuf := ⟨[], side⟩

/-- group a bit list (length a multiple of 8) into bytes -/
def packBytes : Nat → Bits → List Nat
  | 0, _ => []
  | n + 1, b => Bits.toNat (b.take 8) :: packBytes n (b.drop 8)

/-- canonical byte content: minimal length, padding bits zero, on the buffer's side -/
def content (b : ABuf) : List Nat :=
  let pl := padLenOf b.bits.length
  let all := match b.side with
    | .left => Bits.zeros pl ++ b.bits
    | .right => b.bits ++ Bits.zeros pl
  packBytes (all.length / 8) all

/-- bits of a byte string -/
def bytesBits (c : List Nat) : Bits := c.flatMap (Bits.ofNat 8)

/-- `Buffer(content, length, side)`: the zero-extended content's last (left) / first (right) bits -/
def ofBytes (c : List Nat) (n : Nat) (side : Pad) : ABuf :=
  let s := bytesBits c
  match side with
  | .left =>
    let s := Bits.zeros (n - s.length) ++ s
    ⟨s.drop (s.length - n), .left⟩
  | .right =>
    let s := s ++ Bits.zeros (n - s.length)
    ⟨s.take n, .right⟩

/-- `a + b` (`Buffer.__add__`): bits appended, side of the left operand -/
def add (a b : ABuf) : ABuf := ⟨a.bits ++ b.bits, a.side⟩

/-- `b[i:j]`, `0 ≤ i`, clamped -/
def slice (b : ABuf) (i j : Nat) : ABuf := ⟨Bits.slice b.bits i j, b.side⟩

/-- `b[i:]` -/
def from_ (b : ABuf) (i : Nat) : ABuf := ⟨b.bits.drop i, b.side⟩

/-- `a == b` for Buffers: same length and bits, whatever the sides -/
def beq (a b : ABuf) : Bool := a.bits == b.bits

/-- `b.value()` -/
def value (b : ABuf) : Nat := Bits.toNat b.bits

/-- an `n`-bit left-padded buffer holding `v` (`Buffer(v.to_bytes(k,'big'), n)` with `v < 2^n`) -/
def ofNat (n v : Nat) : ABuf := ⟨Bits.ofNat n v, .left⟩

def chunks (b : ABuf) (n : Nat) (pad : Bool) : List ABuf :=
  (Bits.chunks n pad b.bits).map fun c => ⟨c, b.side⟩

end ABuf

inductive Dir | up | dw | bi
  deriving DecidableEq, Repr, Inhabited
inductive MO | equal | ignore | msb | matchMapping
  deriving DecidableEq, Repr, Inhabited
inductive CDA | notSent | lsb | mappingSent | valueSent | compute
  deriving DecidableEq, Repr, Inhabited
inductive Nature | compression | noCompression
  deriving DecidableEq, Repr, Inhabited

/-- a target value: a Buffer, or a MatchMapping given by its forward dict (value ↦ index) in
    insertion order -/
inductive TV
  | buf (b : ABuf)
  | map (fwd : List (ABuf × ABuf))
  deriving DecidableEq, Repr, Inhabited

structure RuleField where
  id : String
  length : Nat
  position : Nat
  dir : Dir
  tv : TV
  mo : MO
  cda : CDA
  deriving DecidableEq, Repr, Inhabited

structure Rule where
  id : ABuf
  nature : Nature
  fields : List RuleField
  deriving DecidableEq, Repr, Inhabited

structure Field where
  id : String
  value : ABuf
  position : Nat
  deriving DecidableEq, Repr, Inhabited

structure Packet where
  dir : Dir
  fields : List Field
  payload : ABuf
  raw : ABuf
  deriving DecidableEq, Repr, Inhabited

/-- Python dict keyed by Buffers (hash and `==` on the bits): insertion-ordered association list -/
def dictGet (d : List (ABuf × ABuf)) (k : ABuf) : Option ABuf :=
  (d.find? fun e => e.1.beq k).map (·.2)

/-- `d[k] = v`: overwrite in place when an equal key exists, else append -/
def dictSet (d : List (ABuf × ABuf)) (k v : ABuf) : List (ABuf × ABuf) :=
  if d.any (fun e => e.1.beq k) then d.map (fun e => if e.1.beq k then (e.1, v) else e)
  else d ++ [(k, v)]

/-- `MatchMapping.reverse = {v: k for k, v in forward.items()}` -/
def reverseOf (fwd : List (ABuf × ABuf)) : List (ABuf × ABuf) :=
  fwd.foldl (fun d e => dictSet d e.2 e.1) []

end Schc
