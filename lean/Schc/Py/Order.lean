/-
When is "sort the compute entries with `compute_function_sort`" a question with one answer?  The comparator is not an
order in general: a header checksum written BEFORE a UDP length written BEFORE the total length the checksum depends on
precede one another in a cycle, and what `list.sort` returns then depends on the comparison schedule of CPython's
algorithm. `orderedB` is the executable test that the comparator orders the given entries consistently; the model driver
answers `unmodelled` where it fails, and `Schc.Proofs.SortUnique` proves that where it holds EVERY sorting algorithm
returns what the model's insertion sort returns.
-/
import Schc.Py.Core

namespace Schc

def ltB (a b : ComputeEntry) : Bool := decide (computeCmp a b < 0)

def orderedB (l : List ComputeEntry) : Bool :=
  l.all fun a => l.all fun b =>
    ((a.pos == b.pos || ltB a b || ltB b a) && !(ltB a b && ltB b a)) &&
    l.all fun c => !(ltB a b && ltB b c) || ltB a c

/-- the compute entries `decompress` collects for a rule: position in the field list, field id -/
def entriesOf : List RuleField → Nat → List ComputeEntry
  | [], _ => []
  | rf :: rfs, pos => if rf.cda = .compute then ⟨pos, rf.id⟩ :: entriesOf rfs (pos + 1) else entriesOf rfs (pos + 1)

def Rule.orderOk (r : Rule) : Bool := orderedB (entriesOf r.fields 0)

/-- … for the rule as written and for what a call with `direction=` Up, Dw or Bi keeps of it (what the driver tests) -/
def Rule.orderOkAll (r : Rule) : Bool :=
  r.orderOk && (restrict r .up).orderOk && (restrict r .dw).orderOk && (restrict r .bi).orderOk

end Schc
