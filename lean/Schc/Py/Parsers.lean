/-
L1 model of `parser/parser.py`, `protocol/registry.py` and the header parsers of
`protocol/{ipv4,ipv6,udp,coap,sctp}.py` over abstract buffers.
Fixed-offset parts interpret the layouts the translator regenerates from the source on every run
(`Schc.Gen.Layouts`); walks with data-dependent cursors take fuel and return `hang` when it runs
out, so that termination is a theorem about the model, not an artefact of its definition.
-/
import Schc.Py.Model
import Schc.Gen.Tables
import Schc.Gen.Layouts

namespace Schc

structure Header where
  length : Nat
  fields : List Field
  deriving DecidableEq, Repr, Inhabited

abbrev Layout := List (String × Nat × Option Nat × Nat)

/-- the constant slices of a parser, in FieldDescriptor order -/
def parseFixed (layout : Layout) (b : ABuf) : List Field :=
  layout.map fun (id, lo, hi, pos) => ⟨id, b.slice lo (hi.getD b.length), pos⟩

def fieldValue (fs : List Field) (id : String) : ABuf :=
  match fs.find? (·.id == id) with
  | some f => f.value
  | none => ABuf.empty .left

inductive CoapMode | syntactic | semantic
  deriving DecidableEq, Repr, Inhabited

/-! ### CoAP -/

structure OptState where
  cursor : Nat := 0
  fields : List Field := []
  /-- occurrence counters, keyed by field id -/
  positions : List (String × Nat) := []
  optionIndex : Nat := 0
  /-- `option_delta_extended` survives from one loop iteration to the next -/
  lastDeltaExt : Option ABuf := none
  deriving Inhabited

def bump (ps : List (String × Nat)) (k : String) : List (String × Nat) × Nat :=
  match ps.find? (·.1 == k) with
  | some (_, n) => (ps.map (fun e => if e.1 == k then (e.1, n + 1) else e), n + 1)
  | none => (ps ++ [(k, 1)], 1)

def natToString (n : Nat) : String := toString n

/-- what one option occupies: the slices the loop body cuts (pure; no occurrence counters) -/
structure OptHdr where
  delta : ABuf
  len : ABuf
  d13 : Bool
  d14 : Bool
  l13 : Bool
  l14 : Bool
  /-- width of the extended delta / length fields (0, 8 or 16) -/
  dw : Nat
  lw : Nat
  deltaExt : ABuf
  lenExt : ABuf
  vlen : Nat
  value : ABuf
  /-- `option_offset` after the value -/
  off : Nat

def optionHeader (ob : ABuf) : OptHdr :=
  let delta := ob.slice 0 4
  let len := ob.slice 4 8
  let d13 := delta.content == Gen.coap_OPTION_DELTA_EXTENDED_8BITS
  let d14 := delta.content == Gen.coap_OPTION_DELTA_EXTENDED_16BITS
  let l13 := len.content == Gen.coap_OPTION_DELTA_EXTENDED_8BITS
  let l14 := len.content == Gen.coap_OPTION_DELTA_EXTENDED_16BITS
  let dw := if d13 then 8 else if d14 then 16 else 0
  let lw := if l13 then 8 else if l14 then 16 else 0
  let deltaExt := ob.slice 8 (8 + dw)
  let lenExt := ob.slice (8 + dw) (8 + dw + lw)
  let lenExtInt := if l13 then lenExt.value else if l14 then lenExt.value + 255 else 0
  let vlen := (len.value + lenExtInt) * 8
  let value := if vlen > 0 then ob.slice (8 + dw + lw) (8 + dw + lw + vlen) else ABuf.empty .left
  ⟨delta, len, d13, d14, l13, l14, dw, lw, deltaExt, lenExt, vlen, value, 8 + dw + lw + vlen⟩

def bumpIf (c : Bool) (ps : List (String × Nat)) (k : String) : List (String × Nat) × Nat :=
  if c then bump ps k else (ps, 0)

/-- one iteration of the option loop of `_parse_options`; `none` = loop finished -/
def optionStep (buffer : ABuf) (mode : CoapMode) (st : OptState) : Py (Option OptState) := do
  if ¬ (st.cursor < buffer.length ∧ (buffer.slice st.cursor (st.cursor + 8)).content ≠ Gen.coap_PAYLOAD_MARKER_VALUE) then
    pure none
  else
    let ob := buffer.from_ st.cursor
    let h := optionHeader ob
    -- occurrence counters, in the order the loop body increments them
    let (ps, pDeltaExt) := bumpIf (h.d13 || h.d14) st.positions Gen.CoAPF.OPTION_DELTA_EXTENDED
    let (ps, pLenExt) := bumpIf (h.l13 || h.l14) ps Gen.CoAPF.OPTION_LENGTH_EXTENDED
    let (ps, pValue) := bumpIf (h.vlen > 0) ps Gen.CoAPF.OPTION_VALUE
    let deltaExt := if h.d13 || h.d14 then some h.deltaExt else st.lastDeltaExt
    if h.off > ob.length then throw .parserError
    let cursor := st.cursor + h.off
    match mode with
    | .syntactic =>
      let r1 := bump ps Gen.CoAPF.OPTION_DELTA
      let r2 := bump r1.1 Gen.CoAPF.OPTION_LENGTH
      let fs := [⟨Gen.CoAPF.OPTION_DELTA, h.delta, r1.2⟩, ⟨Gen.CoAPF.OPTION_LENGTH, h.len, r2.2⟩]
        ++ (if h.d13 || h.d14 then [⟨Gen.CoAPF.OPTION_DELTA_EXTENDED, h.deltaExt, pDeltaExt⟩] else [])
        ++ (if h.l13 || h.l14 then [⟨Gen.CoAPF.OPTION_LENGTH_EXTENDED, h.lenExt, pLenExt⟩] else [])
        ++ (if h.vlen > 0 then [⟨Gen.CoAPF.OPTION_VALUE, h.value, pValue⟩] else [])
      pure (some { st with cursor := cursor, fields := st.fields ++ fs, positions := r2.1, lastDeltaExt := deltaExt })
    | .semantic =>
      let di := h.delta.value
      let index ← if di < 13 then pure (st.optionIndex + di)
        else match deltaExt with
          | some de => pure (st.optionIndex + de.value + (if di = 13 then 13 else 269))
          | none => throw .parserError   -- UnboundLocalError inside the try, re-raised as ParserError
      let fid := match Gen.coapOptionNames.find? (·.1 == index) with
        | some (_, name) => name
        | none => Gen.coapUnknownPrefix ++ "(" ++ natToString index ++ ")"
      let r := bump ps fid
      pure (some { cursor := cursor, fields := st.fields ++ [⟨fid, h.value, r.2⟩], positions := r.1,
                   optionIndex := index, lastDeltaExt := deltaExt })

def optionLoop (buffer : ABuf) (mode : CoapMode) : Nat → OptState → Py OptState
  | 0, _ => throw .hang
  | fuel + 1, st => do
    match ← optionStep buffer mode st with
    | none => pure st
    | some st' => optionLoop buffer mode fuel st'

/-- `_parse_options`: (fields, bits consumed) -/
def parseOptions (buffer : ABuf) (mode : CoapMode) (fuel : Nat) : Py (List Field × Nat) := do
  let st ← optionLoop buffer mode fuel {}
  if st.cursor < buffer.length then
    pure (st.fields ++ [⟨Gen.CoAPF.PAYLOAD_MARKER, ABuf.ofNat 8 0xff, 0⟩], st.cursor + 8)
  else
    pure (st.fields, st.cursor)

/-- any exception escaping `_parse_options` is re-raised as ParserError (`except Exception`);
    running out of fuel is not an exception but non-termination and stays `hang` -/
def asParserError {α} : Py α → Py α
  | .error .hang => .error .hang
  | .error _ => .error .parserError
  | .ok a => .ok a

def coapParse (mode : CoapMode) (fuel : Nat) (b : ABuf) : Py Header := do
  if b.length < Gen.coapMinLength then throw .parserError
  let fixed := parseFixed Gen.coapFixedLayout b
  let tkl := fieldValue fixed Gen.CoAPF.TOKEN_LENGTH
  let tklInt ← idx tkl.content 0
  let token := b.slice 32 (32 + tklInt * 8)
  let hf := if tklInt > 0 then fixed ++ [⟨Gen.CoAPF.TOKEN, token, 0⟩] else fixed
  let ob := b.from_ (32 + tklInt * 8)
  let (ofs, consumed) ← if ob.length > 0 then asParserError (parseOptions ob mode fuel) else pure ([], 0)
  pure ⟨32 + token.length + consumed, hf ++ ofs⟩

/-- `CoAPParser.unparse` in semantic mode (syntactic mode is the identity) -/
def coapFixedIds : List String :=
  [Gen.CoAPF.VERSION, Gen.CoAPF.TYPE, Gen.CoAPF.TOKEN_LENGTH, Gen.CoAPF.CODE, Gen.CoAPF.MESSAGE_ID,
   Gen.CoAPF.TOKEN, Gen.CoAPF.PAYLOAD_MARKER]

/-- `re.match(rf'{OPTION_UNKNOWN}\((\d+)\)', id)`: the rendered prefix, then `(digits)` -/
def unknownOptionNumber (fid : String) : Option Nat :=
  let pre := Gen.coapUnknownPrefix.toList
  let cs := fid.toList
  if cs.take pre.length == pre then
    match cs.drop pre.length with
    | '(' :: rest =>
      let digits := rest.takeWhile Char.isDigit
      if digits.isEmpty then none
      else match rest.drop digits.length with
        | ')' :: _ => (String.ofList digits).toNat?
        | _ => none
    | _ => none
  else none

def nibble (v : Nat) : ABuf := ABuf.ofBytes [v] 4 .left

/-- the option number a semantic field id stands for (known name, else `OPTION_UNKNOWN(n)`) -/
def optionNumber (fid : String) (lastNumber : Option Nat) : Py Nat :=
  match Gen.coapNameToNumber.find? (·.1 == fid) with
  | some (_, n) => pure n
  | none => match unknownOptionNumber fid with
    | some n => pure n
    | none => if lastNumber.isNone then throw .unboundLocal else throw .unparserError

/-- the extended delta / length field for a delta / length `x` (`to_bytes(2, 'big')` overflows from 269 + 65536) -/
def extField (fid : String) (x : Nat) : Py (List (String × ABuf)) :=
  if x > 12 ∧ x < 269 then pure [(fid, ABuf.ofNat 8 (x - 13))]
  else if x > 268 then
    if x - 269 ≥ 65536 then throw .overflowError
    else pure [(fid, ABuf.ofNat 16 (x - 269))]
  else pure []

def nibbleOf (x : Nat) : Nat := if x < 13 then x else if x < 269 then 13 else 14

/-- the syntactic fields one semantic option field re-encodes to -/
def encodeOption (delta : Nat) (v : ABuf) : Py (List (String × ABuf)) := do
  let l := v.length / 8
  let dExt ← extField Gen.CoAPF.OPTION_DELTA_EXTENDED delta
  let lExt ← extField Gen.CoAPF.OPTION_LENGTH_EXTENDED l
  pure ([(Gen.CoAPF.OPTION_DELTA, nibble (nibbleOf delta)), (Gen.CoAPF.OPTION_LENGTH, nibble (nibbleOf l))]
    ++ dExt ++ lExt ++ (if v.length > 0 then [(Gen.CoAPF.OPTION_VALUE, v)] else []))

def coapUnparseSemantic : List (String × ABuf) → Option Nat → Nat → Py (List (String × ABuf))
  | [], _, _ => pure []
  | (fid, v) :: rest, lastNumber, prev => do
    if coapFixedIds.contains fid then
      let r ← coapUnparseSemantic rest lastNumber prev
      pure ((fid, v) :: r)
    else
      let number ← optionNumber fid lastNumber
      if number < prev then throw .overflowError   -- `(number - prev).to_bytes(1, …)` of a negative int
      let out ← encodeOption (number - prev) v
      let r ← coapUnparseSemantic rest (some number) number
      pure (out ++ r)

def coapUnparse (mode : CoapMode) (fs : List (String × ABuf)) : Py (List (String × ABuf)) :=
  match mode with
  | .syntactic => pure fs
  | .semantic => coapUnparseSemantic fs none 0

/-! ### SCTP -/

def chunkTypeNo (name : String) : Nat :=
  match Gen.sctpChunkTypes.find? (·.1 == name) with
  | some (_, n) => n
  | none => 1000000  -- never equals a one-byte value

def sumFieldBits (fs : List Field) : Nat := (fs.map (·.value.length)).sum

/-- `_parse_parameter`: (fields, bits consumed) -/
def sctpParameter (b : ABuf) : Py (List Field × Nat) := do
  let hdr := parseFixed Gen.sctpParameterLayout b
  let plv := (fieldValue hdr Gen.SCTPF.PARAMETER_LENGTH).value * 8
  if b.length < 32 ∨ plv < 32 then throw .parserError
  let pvl := plv - 32
  let fs := if pvl > 0 then hdr ++ [⟨Gen.SCTPF.PARAMETER_VALUE, b.slice 32 plv, 0⟩] else hdr
  let ppl := (32 - pvl % 32) % 32
  let fs := if ppl > 0 then fs ++ [⟨Gen.SCTPF.PARAMETER_PADDING, b.slice plv (plv + ppl), 0⟩] else fs
  pure (fs, plv + ppl)

/-- `while parameters.length > 0: …` -/
def sctpParameters : Nat → ABuf → Py (List Field)
  | 0, b => if b.length > 0 then throw .hang else pure []
  | fuel + 1, b =>
    if b.length > 0 then do
      let (fs, consumed) ← sctpParameter b
      let rest ← sctpParameters fuel (b.from_ consumed)
      pure (fs ++ rest)
    else pure []

/-- the `for _ in range(n)` loops of the SACK chunk -/
def sackBlocks : Nat → ABuf → List Field × ABuf
  | 0, r => ([], r)
  | n + 1, r =>
    let (fs, r') := sackBlocks n (r.from_ 32)
    (⟨Gen.SCTPF.CHUNK_SACK_GAP_ACK_BLOCK_START, r.slice 0 16, 0⟩ :: ⟨Gen.SCTPF.CHUNK_SACK_GAP_ACK_BLOCK_END, r.slice 16 32, 0⟩ :: fs, r')

def sackDups : Nat → ABuf → List Field
  | 0, _ => []
  | n + 1, r => ⟨Gen.SCTPF.CHUNK_SACK_DUPLICATE_TSN, r.slice 0 32, 0⟩ :: sackDups n (r.from_ 32)

def sctpChunkValue (fuel : Nat) (typeNo : Nat) (cv : ABuf) : Py (List Field) := do
  if typeNo = chunkTypeNo "DATA" then pure (parseFixed Gen.sctpDataLayout cv)
  else if typeNo = chunkTypeNo "INIT" then do
    let ps ← sctpParameters fuel (cv.from_ 128)
    pure (parseFixed Gen.sctpInitLayout cv ++ ps)
  else if typeNo = chunkTypeNo "INIT_ACK" then do
    let ps ← sctpParameters fuel (cv.from_ 128)
    pure (parseFixed Gen.sctpInitAckLayout cv ++ ps)
  else if typeNo = chunkTypeNo "SACK" then
    let fixed := parseFixed Gen.sctpSackLayout cv
    let nGap := (fieldValue fixed Gen.SCTPF.CHUNK_SACK_NUMBER_GAP_ACK_BLOCKS).value
    let nDup := (fieldValue fixed Gen.SCTPF.CHUNK_SACK_NUMBER_DUPLICATE_TSNS).value
    let (gaps, rest) := sackBlocks nGap (cv.from_ 96)
    pure (fixed ++ gaps ++ sackDups nDup rest)
  else if typeNo = chunkTypeNo "HEARTBEAT" ∨ typeNo = chunkTypeNo "HEARTBEAT_ACK" ∨ typeNo = chunkTypeNo "ABORT"
      ∨ typeNo = chunkTypeNo "ERROR" then sctpParameters fuel cv
  else if typeNo = chunkTypeNo "SHUTDOWN" then pure (parseFixed Gen.sctpShutdownLayout cv)
  else if typeNo = chunkTypeNo "SHUTDOWN_ACK" ∨ typeNo = chunkTypeNo "COOKIE_ACK" ∨ typeNo = chunkTypeNo "SHUTDOWN_COMPLETE" then pure []
  else if typeNo = chunkTypeNo "COOKIE_ECHO" then pure [⟨Gen.SCTPF.CHUNK_COOKIE_ECHO_COOKIE, cv, 0⟩]
  else pure [⟨Gen.SCTPF.CHUNK_VALUE, cv, 0⟩]

/-- the chunk header fields followed by the fields of the chunk value (`clv` = announced chunk length in bits, ≥ 32) -/
def sctpChunkBody (fuel : Nat) (b : ABuf) (hdr : List Field) (clv : Nat) : Py (List Field) := do
  let cvl := clv - 32
  if cvl > 0 then
    let cv := b.slice 32 (32 + cvl)
    let cf ← sctpChunkValue fuel (fieldValue hdr Gen.SCTPF.CHUNK_TYPE).value cv
    if sumFieldBits cf ≠ cv.length then throw .parserError
    pure (hdr ++ cf)
  else pure hdr

/-- `_parse_chunk`: (fields, bits consumed) -/
def sctpChunk (fuel : Nat) (b : ABuf) : Py (List Field × Nat) := do
  let hdr := parseFixed Gen.sctpChunkHeaderLayout b
  let clv := (fieldValue hdr Gen.SCTPF.CHUNK_LENGTH).value * 8
  if b.length < 32 ∨ clv < 32 then throw .parserError
  let fs ← sctpChunkBody fuel b hdr clv
  let pad := (32 - clv % 32) % 32
  let cp := b.slice clv (clv + pad)
  let fs := if pad > 0 ∧ cp.length > 0 then fs ++ [⟨Gen.SCTPF.CHUNK_PADDING, cp, 0⟩] else fs
  pure (fs, clv + pad)

def sctpChunks : Nat → Nat → ABuf → Py (List Field)
  | 0, _, b => if b.length > 0 then throw .hang else pure []
  | fuel + 1, pf, b =>
    if b.length > 0 then do
      let (fs, consumed) ← sctpChunk pf b
      let rest ← sctpChunks fuel pf (b.from_ consumed)
      pure (fs ++ rest)
    else pure []

def sctpParse (fuel : Nat) (b : ABuf) : Py Header := do
  if b.length < Gen.sctpMinLength then throw .parserError
  let cs ← sctpChunks fuel fuel (b.from_ 96)
  pure ⟨b.length, parseFixed Gen.sctpCommonLayout b ++ cs⟩

/-! ### UDP, IPv4, IPv6 and next-protocol prediction -/

def parserName (id : Nat) : Option String := (Gen.registeredParsers.find? (·.1 == id)).map (·.2)

/-- parsers reachable from UDP: `PARSERS[port](predict_next=True).parse(rest)` -/
def nextFromUdp (fuel : Nat) (id : Nat) (b : ABuf) : Py Header :=
  match parserName id with
  | some "CoAPParser" => coapParse .syntactic fuel b
  | some "SCTPParser" => sctpParse fuel b
  | some _ => throw .unmodelled
  | none => throw .keyError

def udpParse (fuel : Nat) (predict : Bool) (b : ABuf) : Py Header := do
  if b.length < Gen.udpMinLength then throw .parserError
  let fs := parseFixed Gen.udpLayout b
  let h : Header := ⟨Gen.udpHeaderLength, fs⟩
  if predict then
    let port := (fieldValue fs Gen.UDPF.DESTINATION_PORT).value
    if Gen.udpNextProtocols.contains port then
      let nh ← nextFromUdp fuel port (b.from_ Gen.udpHeaderLength)
      pure ⟨h.length + nh.length, h.fields ++ nh.fields⟩
    else pure h
  else pure h

def nextFromIp (fuel : Nat) (id : Nat) (b : ABuf) : Py Header :=
  match parserName id with
  | some "UDPParser" => udpParse fuel true b
  | some "SCTPParser" => sctpParse fuel b
  | some "CoAPParser" => coapParse .syntactic fuel b
  | some _ => throw .unmodelled
  | none => throw .keyError

def ipParse (layout : Layout) (minLen hdrLen : Nat) (version : List Nat) (nextField : String) (nexts : List Nat)
    (fuel : Nat) (predict : Bool) (b : ABuf) : Py Header := do
  if b.length < minLen then throw .parserError
  if (b.slice 0 4).content ≠ version then throw .parserError
  let fs := parseFixed layout b
  let h : Header := ⟨hdrLen, fs⟩
  if predict then
    let v := (fieldValue fs nextField).value
    if nexts.contains v then
      let nh ← nextFromIp fuel v (b.from_ hdrLen)
      pure ⟨h.length + nh.length, h.fields ++ nh.fields⟩
    else pure h
  else pure h

def ipv4Parse := ipParse Gen.ipv4Layout Gen.ipv4MinLength Gen.ipv4HeaderLength Gen.ipv4Version Gen.IPv4F.PROTOCOL Gen.ipv4NextProtocols
def ipv6Parse := ipParse Gen.ipv6Layout Gen.ipv6MinLength Gen.ipv6HeaderLength Gen.ipv6Version Gen.IPv6F.NEXT_HEADER Gen.ipv6NextProtocols

/-- a header parser instance: class name and its `predict_next` flag -/
structure ParserInst where
  cls : String
  predict : Bool
  coapMode : CoapMode := .syntactic
  deriving Repr, Inhabited

def runParser (fuel : Nat) (p : ParserInst) (b : ABuf) : Py Header :=
  if p.cls == "IPv4Parser" then ipv4Parse fuel p.predict b
  else if p.cls == "IPv6Parser" then ipv6Parse fuel p.predict b
  else if p.cls == "UDPParser" then udpParse fuel p.predict b
  else if p.cls == "CoAPParser" then coapParse p.coapMode fuel b
  else if p.cls == "SCTPParser" then sctpParse fuel b
  else throw .unmodelled

/-- `factory(stack_id)` -/
def factory (stackId : String) : Py (List ParserInst) :=
  match Gen.stacks.find? (·.1 == stackId) with
  | some (_, ids) => ids.mapM fun i => match parserName i with
      | some c => pure ⟨c, false, .syntactic⟩
      | none => throw .keyError
  | none => match Gen.protocols.find? (·.1 == stackId) with
    | some (_, i) => match parserName i with
      | some c => pure [⟨c, true, .syntactic⟩]
      | none => throw .keyError
    | none => throw .keyError

/-- `PacketParser.parse` -/
def packetParse (fuel : Nat) (parsers : List ParserInst) (buffer : ABuf) : Py Packet := do
  let rec go : List ParserInst → ABuf → List Field → Py (List Field × ABuf)
    | [], b, acc => pure (acc, b)
    | p :: ps, b, acc => do
      let h ← runParser fuel p b
      go ps (b.from_ h.length) (acc ++ h.fields)
  let (fs, payload) ← go parsers buffer []
  pure ⟨.dw, fs, payload, buffer⟩

/-- fuel that is enough for every walk on a buffer of this length (each iteration consumes ≥ 8 bits) -/
def fuelFor (b : ABuf) : Nat := b.length + 2

end Schc
