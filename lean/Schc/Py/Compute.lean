/-
L1 model of the compute functions (`protocol/ipv4.py`, `ipv6.py`, `udp.py`, `sctp.py`,
`crypto/crc.py`, dispatch table `protocol/__init__.py`) over abstract buffers.
`fields` is the decompressor's list of `(field id, value)`; `pos` the index of the computed field.
-/
import Schc.Py.Model
import Schc.Gen.Tables

namespace Schc
namespace Compute

abbrev Fields := List (String × ABuf)

/-- `reduce(lambda x, y: x + y, l, init)` -/
def concat (init : ABuf) (l : List ABuf) : ABuf := l.foldl ABuf.add init

/-- `reduce(lambda x, y: x + y, l)` without initial value: TypeError on the empty list -/
def concat1 : List ABuf → Py ABuf
  | [] => throw .typeError
  | x :: xs => pure (xs.foldl ABuf.add x)

/-- Python `l[start:stop]` (step 1) for integer bounds, with negative-index wrapping and clamping -/
def pySlice {α} (l : List α) (start : Int) (stop : Option Int) : List α :=
  let n : Int := l.length
  let norm (i : Int) : Nat := if i < 0 then (max 0 (n + i)).toNat else (min i n).toNat
  let s := norm start
  let e := match stop with | none => l.length | some j => norm j
  (l.drop s).take (e - s)

def ceilBytes (n : Nat) : Nat := if n % 8 = 0 then n / 8 else n / 8 + 1

/-- `n.to_bytes(k, 'big')` as a `8k`-bit left-padded buffer; OverflowError when it does not fit -/
def natBuf (k n : Nat) : Py ABuf :=
  if n < 256 ^ k then pure (ABuf.ofNat (8 * k) n) else throw .overflowError

/-- one step of the checksum loops: `acc += v; carry = acc >> 16; acc = (acc + carry) & 0xffff` -/
def foldStep (acc v : Nat) : Nat :=
  let a := acc + v
  (a + (a >>> 16)) &&& 0xffff

def foldSum (chunks : List ABuf) : Nat := chunks.foldl (fun acc c => foldStep acc c.value) 0

/-- ipv6 `_compute_payload_length` -/
def ipv6PayloadLength (fields : Fields) (pos : Nat) : Py ABuf := do
  let payload := concat (ABuf.empty .left) ((fields.drop (pos + 5)).map (·.2))
  natBuf 2 (ceilBytes payload.length)

/-- ipv4 `_compute_total_length` (`fields_values[pos-2:]`; a negative start is outside the model) -/
def ipv4TotalLength (fields : Fields) (pos : Nat) : Py ABuf := do
  let b := concat (ABuf.empty .left) ((pySlice fields ((pos : Int) - 2) none).map (·.2))
  natBuf 2 (ceilBytes b.length)

/-- ipv4 `_compute_checksum` (header checksum over `fields[pos-9 : pos+3]`) -/
def ipv4HeaderChecksum (fields : Fields) (pos : Nat) : Py ABuf := do
  let hdr := concat (ABuf.empty .left) ((pySlice fields ((pos : Int) - 9) (some ((pos : Int) + 3))).map (·.2))
  let s := foldSum (hdr.chunks 16 false)
  natBuf 2 ((0xffff - s % 0x10000) &&& 0xffff)

/-- udp `_compute_length` -/
def udpLength (fields : Fields) (pos : Nat) : Py ABuf := do
  let b ← concat1 ((pySlice fields ((pos : Int) - 2) none).map (·.2))
  natBuf 2 (ceilBytes b.length)

/-- Python `sub in s` for strings -/
def strContains (s sub : String) : Bool :=
  let n := sub.length
  (List.range (s.length - n + 1)).any fun i => ((s.toList.drop i).take n) == sub.toList

/-- `next(offset for offset, id in enumerate(ids[last:0:-1]) if id == target)` -/
def findBackwards (ids : List String) (last : Nat) (target : String) : Py Nat :=
  -- indices last, last-1, …, 1
  match (List.range last).find? (fun off => ids[last - off]? == some target) with
  | some off => pure off
  | none => throw .stopIteration

def getField (fields : Fields) (i : Nat) : Py ABuf :=
  match fields[i]? with
  | some f => pure f.2
  | none => throw .indexError

/-- the arithmetic of udp `_compute_checksum` once the pseudo-header and the UDP header + payload are assembled -/
def udpChecksumOf (pseudo up : ABuf) : Py ABuf :=
  let ps := foldSum (pseudo.chunks 16 false)
  let us := foldSum (up.chunks 16 true)
  let c := ps + us
  let c := (c + (c >>> 16)) &&& 0xffff
  let c := (0xffff - c) &&& 0xffff
  let c := if c = 0 then 0xffff else c
  natBuf 2 c

/-- udp `_compute_checksum` -/
def udpChecksum (fields : Fields) (pos : Nat) : Py ABuf := do
  let ids := fields.map (·.1)
  if pos < 4 then
    -- `fields_ids[pos-4]` wraps around to the end of the list
    let i : Int := (ids.length : Int) + (pos : Int) - 4
    if i < 0 then throw .indexError
    let lastId ← match ids[i.toNat]? with | some x => pure x | none => throw .indexError
    let _ ← concat1 ((pySlice fields ((pos : Int) - 3) none).map (·.2))
    if strContains lastId Gen.ipv6HeaderId || strContains lastId Gen.ipv4HeaderId then throw .unmodelled
    throw .unboundLocal
  let last := pos - 4
  let lastId ← match ids[last]? with | some x => pure x | none => throw .indexError
  let up ← concat1 ((fields.drop (pos - 3)).map (·.2))
  let udpTotal := ceilBytes up.length
  let pseudo ← if strContains lastId Gen.ipv6HeaderId then do
      let off ← findBackwards ids last Gen.IPv6F.SRC_ADDRESS
      let sp := last - off
      let src ← getField fields sp
      let dst ← getField fields (sp + 1)
      let len ← natBuf 4 udpTotal
      pure ((((src.add dst).add len).add (ABuf.ofNat 24 0)).add (ABuf.ofNat 8 0x11))
    else if strContains lastId Gen.ipv4HeaderId then do
      let off ← findBackwards ids last Gen.IPv4F.SRC_ADDRESS
      let sp := last - off
      let src ← getField fields sp
      let dst ← getField fields (sp + 1)
      let len ← natBuf 2 udpTotal
      pure ((((src.add dst).add (ABuf.ofNat 8 0)).add (ABuf.ofNat 8 0x11)).add len)
    else throw .unboundLocal
  udpChecksumOf pseudo up

/-- `crc32c(buffer, crc_init)`: table-driven, one byte (8-bit chunk, zero-padded) at a time -/
def crc32c (b : ABuf) (init : Nat) : Py ABuf := do
  let crc ← (b.chunks 8 true).foldlM (fun crc c => do
      match Gen.crcTable[(crc ^^^ c.value) &&& 0xff]? with
      | some t => pure ((crc >>> 8) ^^^ t)
      | none => throw .indexError) init
  natBuf 4 crc

/-- sctp `_compute_checksum` -/
def sctpChecksum (fields : Fields) (pos : Nat) : Py ABuf := do
  let all ← concat1 ((pySlice fields ((pos : Int) - 3) none).map (·.2))
  let crc ← crc32c all 0xffffffff
  let inv : ABuf := ⟨crc.bits.map not, crc.side⟩
  concat1 (inv.chunks 8 false).reverse

/-- `ComputeFunctions[field_id]` then the call; KeyError for a field id without compute function.
    The dispatch goes through the generated table (id ↦ python function name). -/
def compute (fieldId : String) (fields : Fields) (pos : Nat) : Py ABuf :=
  match Gen.computeFunctions.find? (·.1 == fieldId) with
  | none => throw .keyError
  | some (_, fn, _) =>
    if fn == "ipv4._compute_total_length" then ipv4TotalLength fields pos
    else if fn == "ipv4._compute_checksum" then ipv4HeaderChecksum fields pos
    else if fn == "ipv6._compute_payload_length" then ipv6PayloadLength fields pos
    else if fn == "udp._compute_length" then udpLength fields pos
    else if fn == "udp._compute_checksum" then udpChecksum fields pos
    else if fn == "sctp._compute_checksum" then sctpChecksum fields pos
    else throw .unmodelled

def depsOf (fieldId : String) : List String :=
  match Gen.computeFunctions.find? (·.1 == fieldId) with
  | some (_, _, d) => d
  | none => []

end Compute
end Schc
