-- everything the checks build: model, driver streams, every property module (built once by MANIFEST.setup_cmd)
import Schc
import Schc.Properties.C01
import Schc.Properties.C02
import Schc.Properties.C03
import Schc.Properties.C04
import Schc.Properties.C07
import Schc.Properties.C08
import Schc.Properties.C09
import Schc.Properties.C10
import Schc.Properties.C11
import Schc.Properties.C12
import Schc.Properties.C14
import Schc.Properties.C15
import Schc.Properties.C16
import Schc.Properties.C17
import Schc.Properties.C18
import Schc.Properties.C20
